// C28: a link is encrypted only with a key supplied for it (DESIGN.md section 4, C28)
//
// The link layer runs over a server with one `requires_encryption` and one open characteristic, a security manager
// (legacy / LESC / both) over the toy tool box of the harness radio and a bond data base that is owned by the harness, so
// that "a key is known for (EDIV, Rand, peer address)" is decided by the harness.
// Generated: sequences over
//   encreq (LL_ENC_REQ with EDIV/Rand = 0/0, a bonded pair, a pair bonded for another peer, an unknown pair), startrsp
//   (LL_START_ENC_RSP), pausereq / pausersp, wrong length variants, several of them in one connection event (md=1),
//   pair (legacy pairing: complete, aborted after 1 or 2 steps, wrong confirm value; with / without bonding),
//   readp / reado / writep (ATT on the protected / the open characteristic), idle, miss, term (LL_TERMINATE_IND),
//   disc (local disconnect), reconn (as the bonded or as another central).
// Oracle: reference flag `enc`: set only by LL_START_ENC_RSP after the peripheral transmitted LL_START_ENC_REQ in a procedure
//   whose LL_ENC_REQ named a key the reference knows (bond data base for this peer, or the STK of a pairing the central saw
//   complete on this connection); cleared by pause, by the end of the connection. Compared with it at every quiet point:
//   the protected read (value <=> enc, else error 0x05 / 0x0F / 0x08), the encryption state reported to the application, the
//   radio's start/stop_*_encrypted state, the key handed to the radio. LL_ENC_REQ with an unknown key => LL_ENC_RSP and a
//   reject with "PIN or key missing", never LL_START_ENC_REQ.
#include "verif.hpp"

#include "c27_llbase.hpp"

llh::cb_t llh::g_cb;

namespace {

    using namespace llh;

    std::uint16_t v_prot = 0xC2E7;
    std::uint8_t  v_open = 0x5A;

    using srv_enc = bluetoe::server< bluetoe::no_gap_service_for_gatt_servers,
        bluetoe::service< bluetoe::service_uuid16< 0x1815 >,
            bluetoe::characteristic< bluetoe::characteristic_uuid16< 0x2A01 >, bluetoe::bind_characteristic_value< decltype( v_prot ), &v_prot >, bluetoe::requires_encryption >,
            bluetoe::characteristic< bluetoe::characteristic_uuid16< 0x2A02 >, bluetoe::bind_characteristic_value< decltype( v_open ), &v_open > > > >;
    constexpr unsigned handle_prot = 3, handle_open = 5;

    // ------------------------------------------------------------------------------------------ bond data base
    struct bond
    {
        std::uint16_t ediv;
        std::uint64_t rand;
        bytes         addr;
        u128          key;
    };

    struct db_t
    {
        std::vector< bond > bonds;
        unsigned            created = 0;

        template < class Radio >
        bluetoe::details::longterm_key_t create_new_bond( Radio&, const ll::device_address& )
        {
            const std::uint8_t n = static_cast< std::uint8_t >( created++ );
            return { u128{ { 0xb0, 0x0d, n, 0x33, 0x44 } }, 0x3000ull + n, static_cast< std::uint16_t >( 0x0300 + n ) };
        }
        template < class Connection >
        void store_bond( const bluetoe::details::longterm_key_t& k, const Connection& c )
        {
            bonds.push_back( bond{ k.ediv, k.rand, bytes( c.remote_address().begin(), c.remote_address().end() ), k.longterm_key } );
        }
        std::pair< bool, u128 > find_key( std::uint16_t ediv, std::uint64_t rand, const ll::device_address& a ) const
        {
            return lookup( ediv, rand, bytes( a.begin(), a.end() ) );
        }
        template < class Connection >
        void restore_cccds( Connection& )
        {
        }
        std::pair< bool, u128 > lookup( std::uint16_t ediv, std::uint64_t rand, const bytes& addr ) const
        {
            for ( auto& b : bonds )
                if ( b.ediv == ediv && b.rand == rand && b.addr == addr )
                    return { true, b.key };
            return { false, u128{} };
        }
    } db;

    using db_option = bluetoe::bonding_data_base< db_t, db >;
    using ll_legacy = ll::link_layer< srv_enc, verif_radio, callbacks_option, address_option, bluetoe::legacy_security_manager, db_option, ll::buffer_sizes< 300, 300 > >;
    using ll_lesc   = ll::link_layer< srv_enc, verif_radio, callbacks_option, address_option, bluetoe::lesc_security_manager, db_option, ll::buffer_sizes< 300, 300 > >;
    using ll_both   = ll::link_layer< srv_enc, verif_radio, callbacks_option, address_option, bluetoe::security_manager, db_option, ll::buffer_sizes< 300, 300 > >;

    struct config
    {
        const char*                                  name;
        bool                                         legacy;
        std::function< std::unique_ptr< dev_if >() > make;
    };

    const std::vector< config >& configs()
    {
        static const std::vector< config > c = {
            { "legacy-sm+bond-db", true, [] { return std::unique_ptr< dev_if >( new dev_impl< ll_legacy >() ); } },
            { "lesc-sm+bond-db", false, [] { return std::unique_ptr< dev_if >( new dev_impl< ll_lesc >() ); } },
            { "legacy+lesc-sm+bond-db", true, [] { return std::unique_ptr< dev_if >( new dev_impl< ll_both >() ); } },
        };
        return c;
    }

    const bytes addr_a{ 0x3c, 0x1c, 0x62, 0x92, 0xf0, 0x48 };
    const bytes addr_b{ 0x11, 0x22, 0x33, 0x44, 0x55, 0x46 };

    // ------------------------------------------------------------------------------------------ case
    enum { OP_ENCREQ, OP_STARTRSP, OP_PAUSEREQ, OP_PAUSERSP, OP_PAIR, OP_READP, OP_READO, OP_WRITEP, OP_IDLE, OP_MISS, OP_TERM, OP_DISC, OP_RECONN };
    enum { PAIR_FULL, PAIR_ABORT1, PAIR_ABORT2, PAIR_BADCONFIRM };

    struct Op
    {
        int           kind = OP_IDLE;
        std::uint16_t ediv = 0;
        std::uint64_t rand = 0;
        int           extra = 0;      // additional / missing octets (wrong length variants)
        bool          md    = false;
        int           n     = 1;
        int           mode  = PAIR_FULL;
        bool          bonding = false;
        int           seed  = 1;
        bool          other = false;  // reconn as the other central
    };

    struct Case
    {
        int               cfg   = 0;
        int               bonds = 1;   // bonds of central A that exist at the start (and one of central B)
        std::vector< Op > ops;
    };

    rc::Gen< Op > gen_op()
    {
        auto key = rc::gen::weightedOneOf< std::pair< std::uint16_t, std::uint64_t > >( {
            { 4, rc::gen::just( std::pair< std::uint16_t, std::uint64_t >{ 0, 0 } ) },
            { 6, rc::gen::map( verif::range< int >( 0, 2 ), []( int i ) { return std::pair< std::uint16_t, std::uint64_t >{ static_cast< std::uint16_t >( 0x0100 + i ), 0x1111111111111100ull + i }; } ) },
            { 2, rc::gen::just( std::pair< std::uint16_t, std::uint64_t >{ 0x0200, 0x2222222222222200ull } ) },
            { 2, rc::gen::map( verif::range< int >( 0, 1 ), []( int i ) { return std::pair< std::uint16_t, std::uint64_t >{ static_cast< std::uint16_t >( 0x0300 + i ), 0x3000ull + i }; } ) },
            { 1, rc::gen::just( std::pair< std::uint16_t, std::uint64_t >{ 0x0100, 0 } ) },
            { 2, rc::gen::map( rc::gen::tuple( rc::gen::arbitrary< std::uint16_t >(), rc::gen::arbitrary< std::uint64_t >() ),
                     []( const std::tuple< std::uint16_t, std::uint64_t >& t ) { return std::pair< std::uint16_t, std::uint64_t >{ std::get< 0 >( t ), std::get< 1 >( t ) }; } ) },
        } );
        auto md    = rc::gen::weightedElement< int >( { { 3, 0 }, { 1, 1 } } );
        auto extra = rc::gen::weightedElement< int >( { { 12, 0 }, { 1, 1 }, { 1, -1 } } );
        auto encreq = rc::gen::map( rc::gen::tuple( key, md, extra ), []( const std::tuple< std::pair< std::uint16_t, std::uint64_t >, int, int >& t ) {
            Op o;
            o.kind  = OP_ENCREQ;
            o.ediv  = std::get< 0 >( t ).first;
            o.rand  = std::get< 0 >( t ).second;
            o.md    = std::get< 1 >( t ) != 0;
            o.extra = std::get< 2 >( t );
            return o;
        } );
        auto ctrl = []( int kind, rc::Gen< int > md_, rc::Gen< int > extra_ ) {
            return rc::gen::map( rc::gen::tuple( std::move( md_ ), std::move( extra_ ) ), [ kind ]( const std::tuple< int, int >& t ) {
                Op o;
                o.kind  = kind;
                o.md    = std::get< 0 >( t ) != 0;
                o.extra = std::max( 0, std::get< 1 >( t ) );
                return o;
            } );
        };
        auto simple = []( int kind, rc::Gen< int > n ) {
            return rc::gen::map( std::move( n ), [ kind ]( int v ) {
                Op o;
                o.kind = kind;
                o.n    = v;
                return o;
            } );
        };
        auto pair = rc::gen::map( rc::gen::tuple( rc::gen::weightedElement< int >( { { 6, PAIR_FULL }, { 1, PAIR_ABORT1 }, { 1, PAIR_ABORT2 }, { 1, PAIR_BADCONFIRM } } ),
                                      verif::range< int >( 0, 1 ), verif::range< int >( 1, 250 ) ),
            []( const std::tuple< int, int, int >& t ) {
                Op o;
                o.kind    = OP_PAIR;
                o.mode    = std::get< 0 >( t );
                o.bonding = std::get< 1 >( t ) != 0;
                o.seed    = std::get< 2 >( t );
                return o;
            } );
        auto reconn = rc::gen::map( verif::range< int >( 0, 2 ), []( int v ) {
            Op o;
            o.kind  = OP_RECONN;
            o.other = v == 0;
            return o;
        } );
        return rc::gen::weightedOneOf< Op >( {
            { 22, encreq },
            { 16, ctrl( OP_STARTRSP, md, extra ) },
            { 7, ctrl( OP_PAUSEREQ, md, extra ) },
            { 5, ctrl( OP_PAUSERSP, md, extra ) },
            { 8, pair },
            { 14, simple( OP_READP, rc::gen::just( 1 ) ) },
            { 4, simple( OP_READO, rc::gen::just( 1 ) ) },
            { 3, simple( OP_WRITEP, verif::range< int >( 1, 200 ) ) },
            { 6, simple( OP_IDLE, verif::range< int >( 1, 3 ) ) },
            { 2, simple( OP_MISS, verif::range< int >( 1, 2 ) ) },
            { 5, ctrl( OP_TERM, rc::gen::just( 0 ), rc::gen::just( 0 ) ) },
            { 3, simple( OP_DISC, rc::gen::just( 1 ) ) },
            { 5, reconn },
        } );
    }

    rc::Gen< Case > gen_case()
    {
        return rc::gen::map(
            rc::gen::tuple( verif::range< int >( 0, static_cast< int >( configs().size() ) - 1 ), verif::range< int >( 0, 3 ), rc::gen::container< std::vector< Op > >( gen_op() ) ),
            []( const std::tuple< int, int, std::vector< Op > >& t ) {
                Case c;
                c.cfg   = std::get< 0 >( t );
                c.bonds = std::get< 1 >( t );
                c.ops   = std::get< 2 >( t );
                return c;
            } );
    }

    const char* pair_mode_name( int m )
    {
        static const char* n[] = { "full", "abort1", "abort2", "badconfirm" };
        return n[ m & 3 ];
    }

    std::string to_text( const Case& c )
    {
        std::ostringstream os;
        os << "cfg " << c.cfg << " bonds=" << c.bonds << "  # " << configs()[ c.cfg ].name << "\n";
        for ( auto& o : c.ops )
        {
            switch ( o.kind )
            {
            case OP_ENCREQ: os << "encreq ediv=0x" << std::hex << o.ediv << " rand=0x" << o.rand << std::dec << " extra=" << o.extra << " md=" << o.md << "\n"; break;
            case OP_STARTRSP: os << "startrsp extra=" << o.extra << " md=" << o.md << "\n"; break;
            case OP_PAUSEREQ: os << "pausereq extra=" << o.extra << " md=" << o.md << "\n"; break;
            case OP_PAUSERSP: os << "pausersp extra=" << o.extra << " md=" << o.md << "\n"; break;
            case OP_PAIR: os << "pair mode=" << pair_mode_name( o.mode ) << " bonding=" << o.bonding << " seed=" << o.seed << "\n"; break;
            case OP_READP: os << "readp\n"; break;
            case OP_READO: os << "reado\n"; break;
            case OP_WRITEP: os << "writep " << o.n << "\n"; break;
            case OP_IDLE: os << "idle " << o.n << "\n"; break;
            case OP_MISS: os << "miss " << o.n << "\n"; break;
            case OP_TERM: os << "term md=" << o.md << "\n"; break;
            case OP_DISC: os << "disc\n"; break;
            case OP_RECONN: os << "reconn as=" << ( o.other ? "B" : "A" ) << "\n"; break;
            }
        }
        return os.str();
    }
    void showValue( const Case& c, std::ostream& os ) { os << to_text( c ); }

    Case from_text( const std::string& text )
    {
        Case         c;
        verif::Lines L( text );
        for ( auto& l : L.lines )
        {
            Op                 o;
            const std::string& w = l[ 0 ];
            if ( w == "cfg" )
            {
                c.cfg   = static_cast< int >( verif::tok_int( l, 1 ) ) % static_cast< int >( configs().size() );
                c.bonds = static_cast< int >( kvi( l, "bonds", 1 ) );
                continue;
            }
            o.extra = static_cast< int >( kvi( l, "extra", 0 ) );
            o.md    = kvi( l, "md", 0 ) != 0;
            if ( w == "encreq" )
            {
                o.kind = OP_ENCREQ;
                o.ediv = static_cast< std::uint16_t >( std::strtoul( kv( l, "ediv", "0" ).c_str(), nullptr, 0 ) );
                o.rand = std::strtoull( kv( l, "rand", "0" ).c_str(), nullptr, 0 );
            }
            else if ( w == "startrsp" ) o.kind = OP_STARTRSP;
            else if ( w == "pausereq" ) o.kind = OP_PAUSEREQ;
            else if ( w == "pausersp" ) o.kind = OP_PAUSERSP;
            else if ( w == "pair" )
            {
                o.kind              = OP_PAIR;
                const std::string m = kv( l, "mode", "full" );
                o.mode              = m == "abort1" ? PAIR_ABORT1 : m == "abort2" ? PAIR_ABORT2 : m == "badconfirm" ? PAIR_BADCONFIRM : PAIR_FULL;
                o.bonding           = kvi( l, "bonding", 0 ) != 0;
                o.seed              = static_cast< int >( kvi( l, "seed", 1 ) );
            }
            else if ( w == "readp" ) o.kind = OP_READP;
            else if ( w == "reado" ) o.kind = OP_READO;
            else if ( w == "writep" )
            {
                o.kind = OP_WRITEP;
                o.n    = static_cast< int >( verif::tok_int( l, 1, 1 ) );
            }
            else if ( w == "idle" || w == "miss" )
            {
                o.kind = w == "idle" ? OP_IDLE : OP_MISS;
                o.n    = static_cast< int >( std::max< long >( 1, verif::tok_int( l, 1, 1 ) ) );
            }
            else if ( w == "term" ) o.kind = OP_TERM;
            else if ( w == "disc" ) o.kind = OP_DISC;
            else if ( w == "reconn" )
            {
                o.kind  = OP_RECONN;
                o.other = kv( l, "as", "A" ) == "B";
            }
            else
                continue;
            c.ops.push_back( o );
        }
        return c;
    }

    // ------------------------------------------------------------------------------------------ run
    u128 key_of( std::uint8_t a, std::uint8_t b )
    {
        u128 k{};
        for ( std::size_t i = 0; i != 16; ++i )
            k[ i ] = static_cast< std::uint8_t >( a + 7 * i + b );
        return k;
    }

    enum paired_t { P_NO, P_YES, P_UNSURE };
    enum proc_t { PR_NONE, PR_REQ_RECEIVED, PR_START_REQ_SENT };

    void run( const Case& c, verif::Report& rep )
    {
        const config& cf   = configs()[ c.cfg ];
        auto          flag = []( const char* id ) { return verif::opt_has( "exclude", id ) || verif::opt_has( "avoid", id ); };
        const bool    trace = verif::opt( "trace" ) == "1";
        const bool    no_stale_enc_req = flag( "F-28b" );   // LL_ENC_REQ is not sent in the last event of a connection
        cbs()               = cb_state();
        v_prot              = 0xC2E7;
        v_open              = 0x5A;
        db                  = db_t();
        for ( int i = 0; i < c.bonds && i < 3; ++i )
            db.bonds.push_back( bond{ static_cast< std::uint16_t >( 0x0100 + i ), 0x1111111111111100ull + i, addr_a, key_of( 0xA0, static_cast< std::uint8_t >( i ) ) } );
        db.bonds.push_back( bond{ 0x0200, 0x2222222222222200ull, addr_b, key_of( 0xB0, 0 ) } );

        auto    dev = cf.make();
        central cen( *dev );
        cen.lenient_when_rx_full = true;
        dev->run();

        conn_params params;
        params.interval = 24;
        params.timeout  = 100;
        bytes peer      = addr_a;

        // reference state of the connection
        bool          enc = false;
        proc_t        proc = PR_NONE;
        bool          key_ok = false, key_unsure = false;
        u128          key{};
        paired_t      paired = P_NO;
        u128          stk{};
        bool          reported_enc = false;
        std::size_t   cb_seen = 0, tx_seen = 0;
        unsigned      n_setup_seen = 0;
        bool          reject_due = false;    // LL_ENC_REQ with an unknown key was delivered: a reject has to follow
        unsigned      rsp_due    = 0;        // LL_ENC_RSPs that have to follow
        bool          pausing_tx = false;    // LL_PAUSE_ENC_REQ was received on an encrypted link: the peripheral encrypts until LL_PAUSE_ENC_RSP arrives
        bool          pausing_rx = false;    // LL_PAUSE_ENC_RSP without LL_PAUSE_ENC_REQ: the peripheral may still decrypt
        bool          limbo      = false;    // LL_PAUSE_ENC_REQ arrived between LL_START_ENC_REQ and LL_START_ENC_RSP: nothing defines what a LL_START_ENC_RSP means now
        bool          enc_unsure = false;    // ... and it arrived: the reference does not know the state until the next pause / complete start / new connection
        bool          rx_legit   = false;    // LL_START_ENC_REQ for a known key was sent (and no LL_PAUSE_ENC_REQ since): the radio may decrypt
        std::deque< bytes > att_rsp, smp_rsp;
        std::set< std::string > labels;
        bool          nt = false;
        unsigned      total_events = 0;

        auto reset_conn = [&]() {
            enc    = false;
            proc   = PR_NONE;
            key_ok = key_unsure = false;
            paired = P_NO;
            reported_enc = false;
            reject_due = false;
            rsp_due    = 0;
            pausing_tx = pausing_rx = rx_legit = limbo = enc_unsure = false;
            att_rsp.clear();
            smp_rsp.clear();
        };

        auto scan_callbacks = [&]() {
            for ( ; cb_seen < cbs().log.size(); ++cb_seen )
            {
                const cb_entry& e = cbs().log[ cb_seen ];
                if ( trace )
                    std::cerr << "  callback " << cb_name( e.kind ) << " arg 0x" << std::hex << e.arg << std::dec << " encrypted=" << e.encrypted << "\n";
                if ( e.kind == CB_REQUESTED || e.kind == CB_ESTABLISHED || e.kind == CB_CHANGED )
                    reported_enc = e.encrypted;
                if ( e.kind == CB_CLOSED || e.kind == CB_ATTEMPT_TIMEOUT )
                    reported_enc = false;
            }
        };

        // the PDUs of the peripheral: encryption procedure PDUs against the reference, ATT / SMP answers into queues
        auto scan_tx = [&]( std::size_t op_index ) {
            for ( ; tx_seen < cen.tx.size(); ++tx_seen )
            {
                const tx_rec& r = cen.tx[ tx_seen ];
                if ( r.conn != cen.conn_no || r.payload.empty() )
                    continue;
                const bytes& o = r.payload;
                if ( trace )
                    std::cerr << "  tx llid " << int( r.llid ) << " [" << verif::hex( o ) << "]\n";
                if ( r.llid == 2 && o.size() >= 5 )
                {
                    const unsigned cid = o[ 2 ] | ( o[ 3 ] << 8 );
                    if ( cid == 4 )
                        att_rsp.push_back( bytes( o.begin() + 4, o.end() ) );
                    if ( cid == 6 )
                        smp_rsp.push_back( bytes( o.begin() + 4, o.end() ) );
                    continue;
                }
                if ( r.llid != 3 )
                    continue;
                const std::string where = verif::cat( "op ", op_index, ": the peripheral transmitted " );
                if ( o[ 0 ] == 0x04 )   // LL_ENC_RSP
                {
                    V_CHECK( rsp_due > 0, "enc.unsolicited-pdu", where, "LL_ENC_RSP without an LL_ENC_REQ" );
                    --rsp_due;
                }
                if ( o[ 0 ] == 0x05 )   // LL_START_ENC_REQ
                {
                    V_CHECK_SIG( proc == PR_REQ_RECEIVED, "enc.start-enc-req-unsolicited", "oracle=enc.start-enc-req-unsolicited stale=enc-req-of-the-last-connection",
                        where, "LL_START_ENC_REQ although no LL_ENC_REQ was received on this connection (", cen.events_in_conn, " events old)" );
                    V_CHECK( key_ok || key_unsure, "enc.start-enc-req-without-key", where, "LL_START_ENC_REQ although the reference knows no key for the EDIV / Rand of the request" );
                    proc       = PR_START_REQ_SENT;
                    reject_due = false;
                    key_ok     = true;
                    rx_legit   = true;
                    // the key that was given to the radio
                    V_CHECK( dev->rs().n_setup > n_setup_seen, "enc.key", where, "LL_START_ENC_REQ without setting up the encryption" );
                    if ( !key_unsure )
                        V_CHECK( dev->rs().last_key == key, "enc.key", where, "LL_START_ENC_REQ, but the session key was derived from another key than the one stored for EDIV / Rand / peer" );
                    labels.insert( "start-enc-req-sent" );
                }
                if ( ( o[ 0 ] == 0x11 && o.size() == 3 && o[ 1 ] == 0x03 ) || ( o[ 0 ] == 0x0D && o.size() == 2 ) )
                {
                    const unsigned code = o[ 0 ] == 0x11 ? o[ 2 ] : o[ 1 ];
                    V_CHECK_SIG( proc == PR_REQ_RECEIVED, "enc.unsolicited-pdu", "oracle=enc.unsolicited-pdu stale=enc-req-of-the-last-connection", where,
                        "a reject of LL_ENC_REQ although no LL_ENC_REQ is outstanding on this connection" );
                    V_CHECK( code == 0x06, "enc.reject-code", where, "a reject of LL_ENC_REQ with error code 0x", std::hex, code, std::dec, " instead of 0x06 (PIN or key missing)" );
                    if ( key_ok && !key_unsure )
                        labels.insert( "known-key-rejected" );
                    proc       = PR_NONE;
                    reject_due = false;
                    labels.insert( "enc-req-rejected" );
                }
            }
        };

        // everything observable has to agree with the reference (called when nothing is queued on either side)
        auto check_state = [&]( std::size_t op_index, const char* when ) {
            if ( !cen.connected() )
                return;
            const radio_state& rs  = dev->rs();
            const std::string  at  = verif::cat( "op ", op_index, " (", when, "): " );
            if ( enc_unsure )
            {
                labels.insert( "state-not-defined:pause-inside-a-start-procedure" );
                V_CHECK( rsp_due == 0, "enc.response-missing", at, "LL_ENC_REQ was not answered with LL_ENC_RSP" );
                return;
            }
            const std::string  sig = verif::cat( "oracle=enc.encrypted-without-key start-enc-req=", proc == PR_START_REQ_SENT ? "sent" : "none" );
            V_CHECK_SIG( !rs.tx_enc || enc || pausing_tx, "enc.encrypted-without-key", sig, at, "the radio transmits encrypted, but no encryption start procedure with a known key was completed" );
            V_CHECK_SIG( !reported_enc || enc, "enc.encrypted-without-key", sig, at, "the application was told that the link is encrypted, but no encryption start procedure with a known key was completed" );
            V_CHECK( !rs.rx_enc || enc || proc == PR_START_REQ_SENT || pausing_rx || rx_legit, "enc.receive-encrypted-without-key", at, "the radio decrypts, but the peripheral did not send LL_START_ENC_REQ for a known key" );
            V_CHECK( !enc || ( rs.tx_enc && rs.rx_enc ), "enc.not-encrypted", at, "the encryption start procedure was completed with a known key, but the radio does not encrypt in both directions" );
            V_CHECK( !enc || reported_enc, "enc.not-reported", at, "the link is encrypted, but the application was not told (ll_connection_changed)" );
            V_CHECK( rsp_due == 0, "enc.response-missing", at, "LL_ENC_REQ was not answered with LL_ENC_RSP" );
            V_CHECK( !reject_due, "enc.reject-missing", at, "LL_ENC_REQ with an unknown key was not rejected" );
        };

        auto ensure_connected = [&]() {
            if ( cen.connected() )
                return true;
            params.init_addr = peer;
            for ( int i = 0; i != 3 && !cen.connected(); ++i )
                cen.connect( params );
            if ( cen.connected() )
            {
                reset_conn();
                scan_callbacks();
                // a new connection starts unencrypted
                const radio_state& rs = dev->rs();
                V_CHECK( !rs.tx_enc && !rs.rx_enc, "enc.encrypted-after-reconnect", "the radio still encrypts / decrypts when the next connection starts" );
                V_CHECK( !reported_enc, "enc.encrypted-after-reconnect", "a new connection is reported as encrypted" );
                labels.insert( peer == addr_a ? "connected-as:A" : "connected-as:B" );
            }
            return cen.connected();
        };

        auto after_event = [&]( std::size_t op_index ) {
            ++total_events;
            scan_tx( op_index );
            scan_callbacks();
            if ( !cen.connected() )
            {
                const radio_state& rs = dev->rs();
                V_CHECK( !rs.tx_enc && !rs.rx_enc, "enc.encrypted-after-disconnect", "op ", op_index, ": the connection is closed but the radio still encrypts / decrypts" );
                reset_conn();
            }
        };

        auto event = [&]( const std::vector< pdu >& burst, std::size_t op_index ) {
            if ( !ensure_connected() )
                return central::ev_result();
            const auto res = cen.event( burst );
            if ( trace )
                std::cerr << "event t=" << cen.now_us / 1000 << "ms burst " << burst.size() << " delivered " << res.delivered << ( res.link_closed ? " LINK CLOSED" : "" ) << "\n";
            after_event( op_index );
            return res;
        };

        // idle events until both sides have nothing queued
        auto sync = [&]( std::size_t op_index ) {
            for ( int k = 0, quiet = 0; k != 10 && quiet < 1 && cen.connected(); ++k )
            {
                event( {}, op_index );
                quiet = cen.last_event_quiet ? quiet + 1 : 0;
            }
        };

        auto l2cap = []( unsigned cid, const bytes& data ) {
            pdu p{ 2, {} };
            p.payload = { static_cast< std::uint8_t >( data.size() ), 0, static_cast< std::uint8_t >( cid ), 0 };
            p.payload.insert( p.payload.end(), data.begin(), data.end() );
            return p;
        };

        // ATT request, returns the response (empty: none)
        auto att = [&]( const bytes& req, std::size_t op_index ) -> bytes {
            sync( op_index );
            if ( !cen.connected() )
                return {};
            att_rsp.clear();
            event( { l2cap( 4, req ) }, op_index );
            for ( int k = 0; k != 4 && att_rsp.empty() && cen.connected(); ++k )
                event( {}, op_index );
            return att_rsp.empty() ? bytes() : att_rsp.front();
        };

        auto smp = [&]( const bytes& req, std::size_t op_index ) -> bytes {
            smp_rsp.clear();
            event( { l2cap( 6, req ) }, op_index );
            for ( int k = 0; k != 4 && smp_rsp.empty() && cen.connected(); ++k )
                event( {}, op_index );
            return smp_rsp.empty() ? bytes() : smp_rsp.front();
        };

        auto read_protected = [&]( std::size_t op_index, const char* when ) {
            if ( !ensure_connected() )
                return;
            const bytes r = att( { 0x0A, handle_prot, 0 }, op_index );
            if ( !cen.connected() )
                return;
            check_state( op_index, when );
            if ( enc_unsure )
                return;
            const std::string at = verif::cat( "op ", op_index, " (", when, "): Read Request on the protected characteristic answered with [", verif::hex( r ), "] " );
            if ( enc )
            {
                V_CHECK( r.size() == 3 && r[ 0 ] == 0x0B && r[ 1 ] == 0xE7 && r[ 2 ] == 0xC2, "enc.protected-not-readable", at, "although the link is encrypted with a known key" );
                labels.insert( "protected-read:value" );
            }
            else
            {
                const bool refused = r.size() == 5 && r[ 0 ] == 0x01 && r[ 1 ] == 0x0A && ( r[ 4 ] == 0x05 || r[ 4 ] == 0x0F || r[ 4 ] == 0x08 );
                V_CHECK_SIG( refused, "enc.protected-value-exposed", verif::cat( "oracle=enc.protected-value-exposed start-enc-req=", proc == PR_START_REQ_SENT ? "sent" : "none" ), at,
                    "although the link is not encrypted with a key supplied for it" );
                labels.insert( "protected-read:refused" );
            }
        };

        // ---- the history
        for ( std::size_t i = 0; i < c.ops.size() && total_events < 3000; ++i )
        {
            const Op& o = c.ops[ i ];
            switch ( o.kind )
            {
            case OP_ENCREQ:
            case OP_STARTRSP:
            case OP_PAUSEREQ:
            case OP_PAUSERSP:
            case OP_TERM: {
                if ( !ensure_connected() )
                    break;
                std::vector< const Op* > group{ &o };
                while ( c.ops[ i ].md && group.size() < 4 && i + 1 < c.ops.size()
                        && ( c.ops[ i + 1 ].kind == OP_ENCREQ || c.ops[ i + 1 ].kind == OP_STARTRSP || c.ops[ i + 1 ].kind == OP_PAUSEREQ || c.ops[ i + 1 ].kind == OP_PAUSERSP
                            || c.ops[ i + 1 ].kind == OP_TERM ) )
                    group.push_back( &c.ops[ ++i ] );
                if ( no_stale_enc_req )
                {
                    // F-28b: no LL_ENC_REQ in the event that ends the connection
                    bool term = false, req = false;
                    for ( auto* g : group )
                    {
                        term = term || g->kind == OP_TERM;
                        req  = req || ( g->kind == OP_ENCREQ && g->extra == 0 );
                    }
                    if ( term && req )
                    {
                        std::vector< const Op* > g2;
                        for ( auto* g : group )
                            if ( g->kind != OP_TERM )
                                g2.push_back( g );
                        group        = g2;
                        rep.excluded = true;
                        labels.insert( "excluded:F-28b-enc-req-and-terminate-in-one-event" );
                    }
                }
                std::vector< pdu > burst;
                for ( auto* g : group )
                {
                    pdu p{ 3, {} };
                    switch ( g->kind )
                    {
                    case OP_ENCREQ:
                        p.payload = { 0x03 };
                        for ( int k = 0; k != 8; ++k )
                            p.payload.push_back( static_cast< std::uint8_t >( g->rand >> ( 8 * k ) ) );
                        p.payload.push_back( static_cast< std::uint8_t >( g->ediv ) );
                        p.payload.push_back( static_cast< std::uint8_t >( g->ediv >> 8 ) );
                        for ( int k = 0; k != 12; ++k )
                            p.payload.push_back( static_cast< std::uint8_t >( 0x10 + k ) );
                        break;
                    case OP_STARTRSP: p.payload = { 0x06 }; break;
                    case OP_PAUSEREQ: p.payload = { 0x0A }; break;
                    case OP_PAUSERSP: p.payload = { 0x0B }; break;
                    default: p.payload = { 0x02, 0x13 }; break;
                    }
                    if ( g->kind != OP_TERM )
                    {
                        if ( g->extra > 0 )
                            p.payload.push_back( 0 );
                        if ( g->extra < 0 && p.payload.size() > 1 )
                            p.payload.pop_back();
                    }
                    burst.push_back( p );
                }
                // the PDUs of the peripheral that go out in this event were queued before: look at them first
                const unsigned setup_before = dev->rs().n_setup;
                const auto     res          = cen.event( burst );
                if ( trace )
                    std::cerr << "event t=" << cen.now_us / 1000 << "ms burst " << burst.size() << " delivered " << res.delivered << ( res.link_closed ? " LINK CLOSED" : "" ) << "\n";
                ++total_events;
                scan_tx( i );
                bool terminated = false;
                for ( unsigned k = 0; k != res.delivered && k < group.size() && !terminated; ++k )
                {
                    const Op& g = *group[ k ];
                    if ( g.kind != OP_TERM && g.extra != 0 )
                    {
                        labels.insert( "encryption-pdu-with-wrong-length" );
                        nt = true;
                        continue;   // answered with LL_UNKNOWN_RSP (C27), no effect on the encryption state
                    }
                    switch ( g.kind )
                    {
                    case OP_ENCREQ: {
                        if ( proc != PR_NONE || enc )
                            nt = true;
                        labels.insert( proc != PR_NONE ? "enc-req:while-procedure-pending" : enc ? "enc-req:while-encrypted" : "enc-req:idle" );
                        const auto bonded = db.lookup( g.ediv, g.rand, peer );
                        key_unsure        = false;
                        if ( bonded.first )
                        {
                            key_ok = true;
                            key    = bonded.second;
                            labels.insert( "enc-req:bonded-key" );
                        }
                        else if ( g.ediv == 0 && g.rand == 0 && paired != P_NO )
                        {
                            key_ok     = true;
                            key_unsure = paired == P_UNSURE;
                            key        = stk;
                            labels.insert( paired == P_YES ? "enc-req:stk-of-this-connection" : "enc-req:stk-unsure" );
                        }
                        else
                        {
                            key_ok = false;
                            labels.insert( g.ediv == 0 && g.rand == 0 ? "enc-req:zero-without-pairing" : "enc-req:unknown-key" );
                        }
                        proc         = PR_REQ_RECEIVED;
                        limbo        = false;
                        ++rsp_due;
                        reject_due   = !key_ok;
                        n_setup_seen = setup_before;
                    }
                    break;
                    case OP_STARTRSP:
                        if ( limbo )
                        {
                            enc_unsure = true;
                            limbo      = false;
                            proc       = PR_NONE;
                            nt         = true;
                            labels.insert( "start-enc-rsp:after-pause-inside-the-procedure" );
                        }
                        else if ( proc == PR_START_REQ_SENT )
                        {
                            enc        = true;
                            enc_unsure = false;
                            proc       = PR_NONE;
                            pausing_tx = pausing_rx = false;
                            labels.insert( "start-enc-rsp:expected" );
                        }
                        else
                        {
                            nt = true;
                            labels.insert( enc ? "start-enc-rsp:unsolicited-while-encrypted" : "start-enc-rsp:unsolicited" );
                        }
                        break;
                    case OP_PAUSEREQ:
                        labels.insert( enc ? "pause-req:while-encrypted" : "pause-req:while-not-encrypted" );
                        if ( !enc || proc != PR_NONE )
                            nt = true;
                        if ( enc || enc_unsure )
                            pausing_tx = true;
                        if ( proc == PR_START_REQ_SENT )
                            limbo = true;
                        pausing_rx = rx_legit = false;
                        enc        = false;
                        enc_unsure = false;
                        break;
                    case OP_PAUSERSP:
                        labels.insert( pausing_tx ? "pause-rsp:expected" : "pause-rsp:unsolicited" );
                        if ( !pausing_tx )
                            nt = true;
                        if ( enc || enc_unsure )
                            pausing_rx = true;
                        pausing_tx = false;
                        enc        = false;
                        enc_unsure = false;
                        break;
                    case OP_TERM:
                        labels.insert( proc != PR_NONE ? "terminate:while-procedure-pending" : "terminate" );
                        terminated = true;
                        break;
                    }
                }
                scan_callbacks();
                if ( !cen.connected() )
                {
                    const radio_state& rs = dev->rs();
                    V_CHECK( !rs.tx_enc && !rs.rx_enc, "enc.encrypted-after-disconnect", "op ", i, ": the connection is closed but the radio still encrypts / decrypts" );
                    reset_conn();
                    break;
                }
                sync( i );
                check_state( i, "after the encryption PDUs" );
            }
            break;
            case OP_PAIR: {
                if ( !ensure_connected() || !cf.legacy )
                    break;
                sync( i );
                if ( paired == P_YES )
                    paired = P_UNSURE;
                const bytes preq{ 0x01, 0x03, 0x00, static_cast< std::uint8_t >( o.bonding ? 0x01 : 0x00 ), 0x10, 0x00, static_cast< std::uint8_t >( o.bonding ? 0x01 : 0x00 ) };
                const bytes pres = smp( preq, i );
                labels.insert( "pairing:started" );
                if ( pres.size() != 7 || pres[ 0 ] != 0x02 || o.mode == PAIR_ABORT1 )
                    break;
                u128 mrand, tk{}, p1{}, p2{};
                for ( std::size_t k = 0; k != 16; ++k )
                    mrand[ k ] = static_cast< std::uint8_t >( o.seed * 3 + k * 11 );
                // p1 = pres || preq || rat || iat, p2 = padding || ia || ra (Core Vol 3 Part H 2.2.3), least significant octet first
                p1[ 0 ] = 1;   // both addresses are random addresses
                p1[ 1 ] = 1;
                std::copy( preq.begin(), preq.end(), p1.begin() + 2 );
                std::copy( pres.begin(), pres.end(), p1.begin() + 9 );
                static const std::uint8_t own[] = { 0x47, 0x11, 0x08, 0x15, 0x0f, 0xc0 };
                std::copy( own, own + 6, p2.begin() );
                std::copy( peer.begin(), peer.end(), p2.begin() + 6 );
                u128 mconfirm = toy::c1( tk, mrand, p1, p2 );
                if ( o.mode == PAIR_BADCONFIRM )
                    mconfirm[ 3 ] ^= 0x40;
                bytes m{ 0x03 };
                m.insert( m.end(), mconfirm.begin(), mconfirm.end() );
                const bytes sconf = smp( m, i );
                if ( sconf.size() != 17 || sconf[ 0 ] != 0x03 || o.mode == PAIR_ABORT2 )
                    break;
                bytes r{ 0x04 };
                r.insert( r.end(), mrand.begin(), mrand.end() );
                const bytes srand = smp( r, i );
                if ( srand.size() == 17 && srand[ 0 ] == 0x04 )
                {
                    u128 sr;
                    std::copy( srand.begin() + 1, srand.end(), sr.begin() );
                    stk    = toy::s1( tk, sr, mrand );
                    paired = P_YES;
                    labels.insert( o.bonding ? "pairing:completed-with-bonding" : "pairing:completed" );
                    V_CHECK( o.mode != PAIR_BADCONFIRM, "enc.pairing-with-wrong-confirm", "op ", i, ": pairing completed although the confirm value of the central was wrong" );
                }
                else
                    labels.insert( "pairing:failed" );
                sync( i );
                check_state( i, "after pairing" );
            }
            break;
            case OP_READP: read_protected( i, "read" ); break;
            case OP_READO: {
                if ( !ensure_connected() )
                    break;
                const bytes r = att( { 0x0A, handle_open, 0 }, i );
                if ( cen.connected() )
                    V_CHECK( r.size() == 2 && r[ 0 ] == 0x0B && r[ 1 ] == 0x5A, "harness.open-read", "op ", i, ": Read Request on the open characteristic answered with [", verif::hex( r ), "]" );
            }
            break;
            case OP_WRITEP: {
                if ( !ensure_connected() )
                    break;
                const std::uint8_t lo = static_cast< std::uint8_t >( o.n ), hi = static_cast< std::uint8_t >( o.n * 7 );
                const bytes        r  = att( { 0x12, handle_prot, 0, lo, hi }, i );
                if ( !cen.connected() )
                    break;
                check_state( i, "write" );
                if ( enc_unsure )
                {
                    v_prot = 0xC2E7;
                    break;
                }
                if ( enc )
                {
                    V_CHECK( r.size() == 1 && r[ 0 ] == 0x13 && v_prot == static_cast< std::uint16_t >( lo | ( hi << 8 ) ), "enc.protected-not-writable", "op ", i,
                        ": Write Request on the protected characteristic answered with [", verif::hex( r ), "] although the link is encrypted" );
                    v_prot = 0xC2E7;
                }
                else
                {
                    V_CHECK( r.size() == 5 && r[ 0 ] == 0x01 && r[ 1 ] == 0x12 && ( r[ 4 ] == 0x05 || r[ 4 ] == 0x0F || r[ 4 ] == 0x08 ) && v_prot == 0xC2E7, "enc.protected-value-written",
                        "op ", i, ": Write Request on the protected characteristic answered with [", verif::hex( r ), "], value now 0x", std::hex, v_prot, std::dec,
                        " although the link is not encrypted with a key supplied for it" );
                }
                labels.insert( enc ? "protected-write:accepted" : "protected-write:refused" );
            }
            break;
            case OP_IDLE:
                for ( int k = 0; k != o.n; ++k )
                    event( {}, i );
                break;
            case OP_MISS:
                if ( !ensure_connected() )
                    break;
                for ( int k = 0; k != std::min( o.n, 2 ) && cen.connected(); ++k )
                {
                    cen.missed();
                    after_event( i );
                }
                break;
            case OP_DISC:
                if ( !ensure_connected() )
                    break;
                sync( i );
                dev->disconnect( 0x13 );
                labels.insert( enc ? "local-disconnect:while-encrypted" : "local-disconnect" );
                // from now on the link is on its way down; the reference stops looking at it until it is closed
                for ( int k = 0; k != 12 && cen.connected(); ++k )
                {
                    const auto res = cen.event( {} );
                    static_cast< void >( res );
                    ++total_events;
                    tx_seen = cen.tx.size();
                    scan_callbacks();
                }
                if ( !cen.connected() )
                {
                    const radio_state& rs = dev->rs();
                    V_CHECK( !rs.tx_enc && !rs.rx_enc, "enc.encrypted-after-disconnect", "op ", i, ": the connection is closed but the radio still encrypts / decrypts" );
                    reset_conn();
                }
                break;
            case OP_RECONN:
                if ( cen.connected() )
                {
                    sync( i );
                    cen.event( { pdu{ 3, { 0x02, 0x13 } } } );
                    after_event( i );
                }
                peer = o.other ? addr_b : addr_a;
                ensure_connected();
                break;
            }
        }

        // ---- final probe
        if ( ensure_connected() )
        {
            sync( c.ops.size() );
            check_state( c.ops.size(), "end" );
            read_protected( c.ops.size(), "final probe" );
        }

        rep.nontrivial = nt;
        for ( auto& l : labels )
            rep.label( l );
        rep.label( verif::cat( "cfg:", cf.name ) );
    }
}

int main( int argc, char** argv )
{
    verif::Harness< Case > h;
    h.gen       = gen_case;
    h.to_text   = to_text;
    h.from_text = from_text;
    h.run       = run;
    return verif::run_main( argc, argv, h );
}
