// c24_dev.hpp -- harness-owned scheduled radio + device interface shared by c24_adv.cpp and c25_advrx.cpp
//
// bluetoe::link_layer::link_layer< Server, Radio, Options... > is instantiated with a radio that only *records*
// what the link layer schedules and lets the harness play the outside world (adv_timeout / adv_received /
// timeout / end_event are called by the harness). Two radios: default PDU layout and a layout with a one byte gap
// between header and body (the layout of the nRF bindings with encryption).
//
// NOTE: this header is not part of ./check's cache key by itself; the .reg.py files of the two harnesses add a
// hash of it to the compiler flags.
#pragma once

#include <bluetoe/server.hpp>
#include <bluetoe/service.hpp>
#include <bluetoe/characteristic.hpp>
#include <bluetoe/ll_data_pdu_buffer.hpp>
#include <bluetoe/link_layer.hpp>

#include <memory>
#include <string>
#include <vector>

namespace c24 {

    namespace ll = bluetoe::link_layer;

    // ------------------------------------------------------------------------------------------ radio log
    struct adv_rec
    {
        unsigned                    channel;
        std::vector< std::uint8_t > adv;       // bytes handed as advertising data (in-memory layout, full buffer)
        bool                        rsp_null;  // response buffer pointer was null / size 0
        std::vector< std::uint8_t > rsp;       // bytes handed as scan response data
        std::uint32_t               when_us;
        ll::read_buffer             rx;        // receive buffer handed to the radio
        bool                        while_busy;
    };

    struct evt_rec
    {
        unsigned      channel;
        std::uint32_t start_us, end_us, interval_us;
        bool          while_busy;
    };

    enum pending_t { P_IDLE, P_ADV, P_EVT };

    struct radio_log
    {
        std::vector< adv_rec > advs;
        std::vector< evt_rec > evts;
        pending_t              pending       = P_IDLE;
        unsigned               aa_crc_sets   = 0;
        std::uint32_t          access_addr   = 0, crc_init = 0;
        unsigned               wake_ups      = 0;
    };

    // ------------------------------------------------------------------------------------------ layouts
    struct gap_layout : ll::details::layout_base< gap_layout >
    {
        static constexpr std::size_t header_size = sizeof( std::uint16_t );
        static constexpr std::size_t gap         = 1;

        using ll::details::layout_base< gap_layout >::header;

        static std::uint16_t header( const std::uint8_t* pdu ) { return ::bluetoe::details::read_16bit( pdu ); }
        static void          header( std::uint8_t* pdu, std::uint16_t v ) { ::bluetoe::details::write_16bit( pdu, v ); }

        static std::pair< std::uint8_t*, std::uint8_t* > body( const ll::read_buffer& pdu )
        {
            assert( pdu.size >= header_size );
            return { &pdu.buffer[ header_size + gap ], &pdu.buffer[ pdu.size ] };
        }
        static std::pair< const std::uint8_t*, const std::uint8_t* > body( const ll::write_buffer& pdu )
        {
            assert( pdu.size >= header_size );
            return { &pdu.buffer[ header_size + gap ], &pdu.buffer[ pdu.size ] };
        }
        static constexpr std::size_t data_channel_pdu_memory_size( std::size_t payload_size )
        {
            return header_size + payload_size + gap;
        }
    };

    // ------------------------------------------------------------------------------------------ radios
    template < std::size_t Tx, std::size_t Rx, typename CB, typename Derived >
    class radio_base : public ll::ll_data_pdu_buffer< Tx, Rx, Derived >
    {
    public:
        using buf = ll::ll_data_pdu_buffer< Tx, Rx, Derived >;

        radio_log log;

        radio_base() {}
        ~radio_base() { log.pending = P_IDLE; }  // user provided: see DESIGN.md 2.2 (field padding)

        void schedule_advertisment( unsigned channel, const ll::write_buffer& adv, const ll::write_buffer& rsp, ll::delta_time when,
            const ll::read_buffer& rx )
        {
            adv_rec r;
            r.channel    = channel;
            r.adv        = adv.buffer ? std::vector< std::uint8_t >( adv.buffer, adv.buffer + adv.size ) : std::vector< std::uint8_t >();
            r.rsp_null   = rsp.buffer == nullptr || rsp.size == 0;
            r.rsp        = rsp.buffer ? std::vector< std::uint8_t >( rsp.buffer, rsp.buffer + rsp.size ) : std::vector< std::uint8_t >();
            r.when_us    = when.usec();
            r.rx         = rx;
            r.while_busy = log.pending != P_IDLE;
            log.advs.push_back( r );
            log.pending = P_ADV;
        }

        ll::delta_time schedule_connection_event( unsigned channel, ll::delta_time s, ll::delta_time e, ll::delta_time i )
        {
            log.evts.push_back( evt_rec{ channel, s.usec(), e.usec(), i.usec(), log.pending != P_IDLE } );
            log.pending = P_EVT;
            return ll::delta_time();
        }

        std::pair< bool, ll::delta_time > disarm_connection_event() { return { false, ll::delta_time() }; }
        bool schedule_synchronized_user_timer( ll::delta_time, ll::delta_time ) { return false; }
        bool cancel_synchronized_user_timer() { return false; }
        void set_access_address_and_crc_init( std::uint32_t a, std::uint32_t c )
        {
            log.access_addr = a;
            log.crc_init    = c;
            ++log.aa_crc_sets;
        }
        std::uint32_t static_random_address_seed() const { return 0x47110815; }
        void          run() {}
        void          wake_up() { ++log.wake_ups; }
        void          request_event_cancelation() {}
        void          radio_set_phy( ll::phy_ll_encoding::phy_ll_encoding_t, ll::phy_ll_encoding::phy_ll_encoding_t ) {}
        void          increment_receive_packet_counter() {}
        void          increment_transmit_packet_counter() {}
        struct lock_guard
        {
            lock_guard() {}
            ~lock_guard() {}
        };
        static constexpr std::size_t radio_maximum_white_list_entries          = 0;  // software white list (hardware variant: C26)
        static constexpr bool        hardware_supports_encryption              = false;
        static constexpr bool        hardware_supports_2mbit                   = true;
        static constexpr bool        hardware_supports_synchronized_user_timer = false;
        static constexpr unsigned    connection_event_setup_time_us            = 100u;

        // radio side of the PDU buffer for the harness
        using buf::allocate_receive_buffer;
        using buf::next_transmit;
        using buf::received;
    };

    template < std::size_t Tx, std::size_t Rx, typename CB >
    class radio : public radio_base< Tx, Rx, CB, radio< Tx, Rx, CB > >
    {
    };

    template < std::size_t Tx, std::size_t Rx, typename CB >
    class radio_gap : public radio_base< Tx, Rx, CB, radio_gap< Tx, Rx, CB > >
    {
    };
}

namespace bluetoe {
namespace link_layer {
    template < std::size_t Tx, std::size_t Rx, typename CB >
    struct pdu_layout_by_radio< c24::radio_gap< Tx, Rx, CB > >
    {
        using pdu_layout = c24::gap_layout;
    };
}
}

namespace c24 {

    // ------------------------------------------------------------------------------------------ server + callbacks
    inline std::uint8_t& bound_value()
    {
        static std::uint8_t v = 42;
        return v;
    }
    static std::uint8_t g_value = 42;

    using server_t = bluetoe::server< bluetoe::service< bluetoe::service_uuid16< 0x1815 >,
        bluetoe::characteristic< bluetoe::characteristic_uuid16< 0x2A01 >, bluetoe::bind_characteristic_value< std::uint8_t, &g_value > > > >;

    struct cb_entry
    {
        std::string        what;
        ll::device_address local, remote;
        unsigned           reason = 0;
    };

    inline std::vector< cb_entry >& cb_log()
    {
        static std::vector< cb_entry > l;
        return l;
    }

    struct cb_t
    {
        template < class C >
        void ll_connection_requested( const ll::connection_details&, const ll::connection_addresses& a, C& )
        {
            cb_log().push_back( cb_entry{ "requested", a.local_address(), a.remote_address(), 0 } );
        }
        template < class C >
        void ll_connection_established( const ll::connection_details&, const ll::connection_addresses& a, C& )
        {
            cb_log().push_back( cb_entry{ "established", a.local_address(), a.remote_address(), 0 } );
        }
        template < class C >
        void ll_connection_closed( std::uint8_t r, C& )
        {
            cb_log().push_back( cb_entry{ "closed", ll::device_address(), ll::device_address(), r } );
        }
        template < class C >
        void ll_connection_changed( const ll::connection_details&, C& )
        {
            cb_log().push_back( cb_entry{ "changed", ll::device_address(), ll::device_address(), 0 } );
        }
        template < class C >
        void ll_connection_attempt_timeout( C& )
        {
            cb_log().push_back( cb_entry{ "attempt_timeout", ll::device_address(), ll::device_address(), 0 } );
        }
        template < class C >
        void ll_version( std::uint8_t, std::uint16_t, std::uint16_t, C& )
        {
        }
        template < class C >
        void ll_rejected( std::uint8_t, C& )
        {
        }
        template < class C >
        void ll_unknown( std::uint8_t, C& )
        {
        }
        template < class C >
        void ll_remote_features( std::uint8_t*, C& )
        {
        }
        template < class C >
        void ll_phy_updated( ll::phy_ll_encoding::phy_ll_encoding_t, ll::phy_ll_encoding::phy_ll_encoding_t, C& )
        {
        }
    };
    static cb_t g_callbacks;

    using callbacks_opt = ll::connection_callbacks< cb_t, g_callbacks >;

    // ------------------------------------------------------------------------------------------ advertising types
    enum adv_type_id { T_UNDIRECTED = 0, T_DIRECTED = 1, T_SCANNABLE = 2, T_NONCONN = 3 };

    template < int T >
    struct adv_type;
    template <>
    struct adv_type< T_UNDIRECTED >
    {
        using type = ll::connectable_undirected_advertising;
    };
    template <>
    struct adv_type< T_DIRECTED >
    {
        using type = ll::connectable_directed_advertising;
    };
    template <>
    struct adv_type< T_SCANNABLE >
    {
        using type = ll::scannable_undirected_advertising;
    };
    template <>
    struct adv_type< T_NONCONN >
    {
        using type = ll::non_connectable_undirected_advertising;
    };

    // on-air PDU type code of an advertising type
    inline unsigned pdu_code_of( int t )
    {
        static const unsigned codes[] = { 0, 1, 6, 2 };
        return codes[ t ];
    }
    inline const char* type_name( int t )
    {
        static const char* n[] = { "undirected", "directed", "scannable", "nonconn" };
        return t >= 0 && t < 4 ? n[ t ] : "?";
    }

    // ------------------------------------------------------------------------------------------ device interface
    struct caps
    {
        std::string        name;
        bool               var_map      = false;
        bool               var_interval = false;
        unsigned           fixed_interval_ms = 100;
        bool               no_auto      = false;
        int                wl_size      = 0;      // 0: no white list option
        bool               gap          = false;  // radio with the gap layout
        bool               explicit_types = true; // false: no advertising type option given (default type)
        std::vector< int > types;                 // adv_type_id in option order
        bool               has_type( int t ) const { return std::find( types.begin(), types.end(), t ) != types.end(); }
        bool               multi() const { return types.size() > 1; }
        std::size_t        hdr_gap() const { return gap ? 1 : 0; }
    };

    struct device_if
    {
        virtual ~device_if() {}
        virtual const caps& cap() const = 0;
        virtual radio_log&  log()       = 0;

        virtual void run()                                                = 0;
        virtual void adv_timeout()                                        = 0;  // the pending advertisement got no answer
        virtual void adv_received( const std::vector< std::uint8_t >& m ) = 0;  // m: in-memory layout bytes (exact size)
        virtual void conn_timeout()                                       = 0;
        virtual void conn_event_empty()                                   = 0;  // central sends one empty PDU
        virtual ll::device_address local_address()                        = 0;
        virtual void               local_address( const ll::device_address& ) = 0;

        virtual void start()                 = 0;
        virtual void start_n( unsigned )     = 0;
        virtual void stop()                  = 0;
        virtual void add_channel( unsigned ) = 0;
        virtual void rem_channel( unsigned ) = 0;
        virtual void interval_ms( unsigned ) = 0;
        virtual void change_type( int )      = 0;
        virtual void directed_address( const ll::device_address& ) = 0;

        virtual bool        wl_add( const ll::device_address& )    = 0;
        virtual bool        wl_remove( const ll::device_address& ) = 0;
        virtual void        wl_clear()                             = 0;
        virtual void        conn_filter( bool )                    = 0;
        virtual void        scan_filter( bool )                    = 0;
        virtual bool        in_scan_filter( const ll::device_address& ) = 0;
    };

    // compile time description of one configuration
    template < bool VarMap, bool VarInterval, bool NoAuto, int WlSize, int... Types >
    struct cfg
    {
        static constexpr bool var_map = VarMap, var_interval = VarInterval, no_auto = NoAuto;
        static constexpr int  wl_size = WlSize;
        static constexpr bool has_directed = ( ( Types == T_DIRECTED ) || ... || false );
        static constexpr bool multi        = sizeof...( Types ) >= 2;

        template < class LL >
        static void change( LL& l, int t )
        {
            ( void )l;
            ( void )t;
            if constexpr ( multi )
            {
                ( ( t == Types ? ( l.template change_advertising< typename adv_type< Types >::type >(), 0 ) : 0 ), ... );
            }
        }
        static std::vector< int > types() { return std::vector< int >{ Types... }; }
    };

    template < class LL, class Cfg >
    struct device_impl : device_if
    {
        struct dev : LL
        {
        };
        std::unique_ptr< dev > d;
        caps                   c;
        bool                   sn = false, nesn = false;  // of the (harness) central

        using layout = typename LL::layout_t;

        device_impl( const std::string& name, bool gap, unsigned fixed_interval, bool explicit_types ) : d( new dev )
        {
            c.name              = name;
            c.var_map           = Cfg::var_map;
            c.var_interval      = Cfg::var_interval;
            c.fixed_interval_ms = fixed_interval;
            c.no_auto           = Cfg::no_auto;
            c.wl_size           = Cfg::wl_size;
            c.gap               = gap;
            c.explicit_types    = explicit_types;
            c.types             = Cfg::types();
            if ( c.types.empty() )
                c.types.push_back( T_UNDIRECTED );
        }

        const caps& cap() const override { return c; }
        radio_log&  log() override { return d->log; }

        void run() override { d->run(); }
        void adv_timeout() override
        {
            d->log.pending = P_IDLE;
            d->adv_timeout();
        }
        void adv_received( const std::vector< std::uint8_t >& m ) override
        {
            d->log.pending = P_IDLE;
            // the bytes are also placed into the buffer the radio was given (as far as they fit) ...
            const ll::read_buffer rx = d->log.advs.back().rx;
            if ( rx.buffer )
                std::copy( m.begin(), m.begin() + std::min( m.size(), rx.size ), rx.buffer );
            // ... but the callback gets an exact size heap copy, so that reads past the received size are ASan reports
            std::unique_ptr< std::uint8_t[] > exact( new std::uint8_t[ m.size() ] );
            std::copy( m.begin(), m.end(), exact.get() );
            sn = nesn = false;
            d->adv_received( ll::read_buffer{ exact.get(), m.size() } );
        }
        void conn_timeout() override
        {
            d->log.pending = P_IDLE;
            d->timeout();
        }
        void conn_event_empty() override
        {
            d->log.pending = P_IDLE;
            auto b = d->allocate_receive_buffer();
            if ( b.size == 0 )
            {
                d->timeout();
                return;
            }
            layout::header( b.buffer, static_cast< std::uint16_t >( 0x01 | ( nesn ? 0x04 : 0 ) | ( sn ? 0x08 : 0 ) ) );
            const auto          t   = d->received( b );
            const std::uint16_t hdr = layout::header( t.buffer );
            const bool          p_nesn = hdr & 0x04, p_sn = hdr & 0x08;
            if ( p_nesn != sn )
                sn = !sn;  // acknowledged
            if ( p_sn == nesn )
                nesn = !nesn;  // new data from the peripheral
            d->end_event( ll::connection_event_events() );
        }
        ll::device_address local_address() override { return static_cast< const LL& >( *d ).local_address(); }
        void               local_address( const ll::device_address& a ) override { static_cast< LL& >( *d ).local_address( a ); }

        void start() override
        {
            if constexpr ( Cfg::no_auto )
                d->start_advertising();
        }
        void start_n( unsigned n ) override
        {
            ( void )n;
            if constexpr ( Cfg::no_auto )
                d->start_advertising( n );
        }
        void stop() override
        {
            if constexpr ( Cfg::no_auto )
                d->stop_advertising();
        }
        void add_channel( unsigned ch ) override
        {
            ( void )ch;
            if constexpr ( Cfg::var_map )
                d->add_channel_to_advertising_channel_map( ch );
        }
        void rem_channel( unsigned ch ) override
        {
            ( void )ch;
            if constexpr ( Cfg::var_map )
                d->remove_channel_from_advertsing_channel_map( ch );
        }
        void interval_ms( unsigned ms ) override
        {
            ( void )ms;
            if constexpr ( Cfg::var_interval )
                d->advertising_interval_ms( ms );
        }
        void change_type( int t ) override { Cfg::change( *d, t ); }
        void directed_address( const ll::device_address& a ) override
        {
            ( void )a;
            if constexpr ( Cfg::has_directed )
                d->directed_advertising_address( a );
        }

        bool wl_add( const ll::device_address& a ) override
        {
            ( void )a;
            if constexpr ( Cfg::wl_size > 0 )
                return d->add_to_white_list( a );
            else
                return false;
        }
        bool wl_remove( const ll::device_address& a ) override
        {
            ( void )a;
            if constexpr ( Cfg::wl_size > 0 )
                return d->remove_from_white_list( a );
            else
                return false;
        }
        void wl_clear() override
        {
            if constexpr ( Cfg::wl_size > 0 )
                d->clear_white_list();
        }
        void conn_filter( bool b ) override
        {
            ( void )b;
            if constexpr ( Cfg::wl_size > 0 )
                d->connection_request_filter( b );
        }
        void scan_filter( bool b ) override
        {
            ( void )b;
            if constexpr ( Cfg::wl_size > 0 )
                d->scan_request_filter( b );
        }
        bool in_scan_filter( const ll::device_address& a ) override { return d->is_scan_request_in_filter( a ); }
    };

    // ------------------------------------------------------------------------------------------ PDU helpers (harness side)
    // in-memory image of an advertising channel PDU for a device with the given header gap
    inline std::vector< std::uint8_t > to_memory( std::uint8_t h0, std::uint8_t h1, const std::vector< std::uint8_t >& body, std::size_t gap )
    {
        std::vector< std::uint8_t > m{ h0, h1 };
        m.insert( m.end(), gap, 0xEE );
        m.insert( m.end(), body.begin(), body.end() );
        return m;
    }

    struct addr_t
    {
        std::uint8_t b[ 6 ];
        bool         random;
        bool         operator==( const addr_t& o ) const { return random == o.random && std::equal( b, b + 6, o.b ); }
        bool         operator<( const addr_t& o ) const
        {
            return random != o.random ? random < o.random : std::lexicographical_compare( b, b + 6, o.b, o.b + 6 );
        }
        ll::device_address dev() const { return ll::device_address( b, random ); }
    };

    inline addr_t from_dev( const ll::device_address& a )
    {
        addr_t r;
        std::copy( a.begin(), a.end(), r.b );
        r.random = a.is_random();
        return r;
    }

    // the peers of the generated world: three byte patterns (two of them one bit apart) x public/random
    inline addr_t peer( int i )
    {
        static const std::uint8_t pat[ 3 ][ 6 ] = { { 0x3c, 0x1c, 0x62, 0x92, 0xf0, 0x48 }, { 0x3c, 0x1c, 0x62, 0x92, 0xf0, 0x49 },
            { 0x11, 0x22, 0x33, 0x44, 0x55, 0x66 } };
        i = ( ( i % 6 ) + 6 ) % 6;
        addr_t r;
        std::copy( pat[ i / 2 ], pat[ i / 2 ] + 6, r.b );
        r.random = i % 2;
        return r;
    }

    // connect request parameters that are valid by every reading of Core Vol 6 Part B 2.3.3.1 / 4.5.2 (22 bytes LLData)
    inline std::vector< std::uint8_t > default_lldata()
    {
        return { 0x5a, 0xb3, 0x9a, 0xaf, 0x08, 0x81, 0xf6, 0x02, 0x03, 0x00, 0x06, 0x00, 0x00, 0x00, 0x0a, 0x00, 0xff, 0xff, 0xff, 0xff, 0x1f, 0xaa };
    }
}
