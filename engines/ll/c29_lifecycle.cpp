// C29: the connection lifecycle is reported completely and in order (DESIGN.md section 4, C29)
//
// Generated: runs over several connections:
//   conn     answer the advertisement with a valid CONNECT_IND (generated parameters)
//   badconn  CONNECT_IND for another device / with invalid parameters (must not produce any callback)
//   advto    advertising events nobody answers
//   pdu      control PDUs that produce application callbacks (rejects, unknown responses, feature requests, version
//            indication, PHY update without change), connection updates with instants in the future / the past,
//            LL_TERMINATE_IND, fillers that need a transmit buffer; md=1 chains up to 8 PDUs into one connection event
//   noack    the central does not acknowledge for n events: the transmit buffer of the peripheral stays full, received
//            PDUs pile up and are handled in one burst later
//   idle / miss   events with empty PDUs / events that do not take place (supervision timeout, connection attempt timeout)
//   app      disconnect( reason ), remote_versions_request, phy_update_request, connection_parameter_update_request
// Oracle: the callback log is checked after every radio callback against a small state machine per connection:
//   requested (established changed* closed | attempt_timeout), each exactly once, `requested` with the parameters and the
//   address of the CONNECT_IND, `established` with the first connection event, `changed` exactly when a connection update
//   reaches its instant (with the new parameters), `closed` / `attempt_timeout` in the radio callback in which the link
//   layer returns to advertising, the reason out of the set the model knows causes for; no callback outside of
//   requested..closed and none for another connection object.
#include "verif.hpp"

#include "c27_llbase.hpp"

llh::cb_t llh::g_cb;

namespace {

    using namespace llh;

    std::uint8_t v_open = 42;

    using srv_plain = bluetoe::server< bluetoe::service< bluetoe::service_uuid16< 0x1815 >,
        bluetoe::characteristic< bluetoe::characteristic_uuid16< 0x2A01 >, bluetoe::bind_characteristic_value< decltype( v_open ), &v_open >, bluetoe::notify > > >;

    using ll0 = ll::link_layer< srv_plain, verif_radio, callbacks_option, address_option >;
    using ll1 = ll::link_layer< srv_plain, verif_radio, callbacks_option, address_option, ll::buffer_sizes< 300, 300 > >;
    using ll2 = ll::link_layer< srv_plain, verif_radio, callbacks_option, address_option, ll::buffer_sizes< 100, 150 >, ll::peripheral_latency_strict >;

    struct config
    {
        const char*                                  name;
        std::function< std::unique_ptr< dev_if >() > make;
    };

    const std::vector< config >& configs()
    {
        static const std::vector< config > c = {
            { "default-buffers", [] { return std::unique_ptr< dev_if >( new dev_impl< ll0 >() ); } },
            { "buffers-300", [] { return std::unique_ptr< dev_if >( new dev_impl< ll1 >() ); } },
            { "buffers-100-150+latency-strict", [] { return std::unique_ptr< dev_if >( new dev_impl< ll2 >() ); } },
        };
        return c;
    }

    // ------------------------------------------------------------------------------------------ case
    enum { OP_CONN, OP_BADCONN, OP_ADVTO, OP_PDU, OP_IDLE, OP_MISS, OP_NOACK, OP_APP };
    enum { APP_DISC, APP_VER, APP_PHY, APP_CPR };
    constexpr int no_rel = -100000;

    struct Op
    {
        int         kind = OP_IDLE;
        conn_params p;             // OP_CONN
        int         bad    = 0;    // OP_BADCONN: kind of defect
        int         opcode = 0;
        bytes       body;
        int         rel = no_rel;
        bool        md  = false;
        int         n   = 1;
        int         app = APP_DISC;
        unsigned    a = 0x13, b = 0;
    };

    struct Case
    {
        bool              strict_radio = false;   // replay of F-27b: the radio behaves like the hardware bindings when the receive ring is full
        int               cfg = 0;
        std::vector< Op > ops;
    };

    void put16( bytes& b, std::size_t off, unsigned v )
    {
        if ( off + 1 < b.size() )
        {
            b[ off ]     = static_cast< std::uint8_t >( v );
            b[ off + 1 ] = static_cast< std::uint8_t >( v >> 8 );
        }
    }

    Op make_pdu( int shape, const bytes& raw, int k1, const conn_params& up, bool md )
    {
        Op o;
        o.kind = OP_PDU;
        o.md   = md;
        switch ( shape )
        {
        case 0: o.opcode = 0x0D; o.body = { raw[ 0 ] }; break;                                                          // LL_REJECT_IND
        case 1: o.opcode = 0x11; o.body = { static_cast< std::uint8_t >( k1 % 2 ? 0x0F : raw[ 1 ] ), raw[ 0 ] }; break;  // LL_REJECT_EXT_IND
        case 2: o.opcode = 0x07; o.body = { static_cast< std::uint8_t >( k1 % 2 ? 0x0F : raw[ 1 ] ) }; break;            // LL_UNKNOWN_RSP
        case 3: o.opcode = 0x08; o.body = bytes( raw.begin(), raw.begin() + 8 ); break;                                  // LL_FEATURE_REQ
        case 4: o.opcode = 0x0C; o.body = { static_cast< std::uint8_t >( 6 + k1 % 6 ), raw[ 0 ], raw[ 1 ], raw[ 2 ], raw[ 3 ] }; break;
        case 5: o.opcode = 0x18; o.body = { 0, 0, 0, 0 }; o.rel = 3; break;                                              // LL_PHY_UPDATE_IND, nothing changes
        case 6: o.opcode = 0x12; break;                                                                                  // LL_PING_REQ
        case 7:                                                                                                          // LL_CONNECTION_UPDATE_IND
        case 8:
            o.opcode    = 0x00;
            o.body      = bytes( 11, 0 );
            o.body[ 0 ] = static_cast< std::uint8_t >( up.win_size );
            put16( o.body, 1, up.win_offset );
            put16( o.body, 3, up.interval );
            put16( o.body, 5, up.latency );
            put16( o.body, 7, up.timeout );
            o.rel = shape == 7 ? 2 + k1 % 5 : ( k1 % 4 == 3 ? -32000 : -2 - k1 % 4 );
            break;
        case 9: o.opcode = 0x02; o.body = { static_cast< std::uint8_t >( k1 % 3 == 0 ? 0x13 : raw[ 0 ] ) }; break;      // LL_TERMINATE_IND
        case 10:                                                                                                         // LL_CHANNEL_MAP_IND
            o.opcode = 0x01;
            o.body   = bytes( raw.begin(), raw.begin() + 7 );
            o.body[ 0 ] |= 3;
            o.body[ 4 ] &= 0x1f;
            o.rel = k1 % 5 == 4 ? -1 - k1 % 3 : 2 + k1 % 5;
            break;
        case 11: o.opcode = 0x18; o.body = { static_cast< std::uint8_t >( 1 + k1 % 2 ), static_cast< std::uint8_t >( ( k1 / 2 ) % 3 ), 0, 0 }; o.rel = 2 + k1 % 5; break;
        default: o.opcode = 0x19 + k1 % 16; o.body = bytes( raw.begin(), raw.begin() + k1 % 8 ); break;                  // not supported
        }
        return o;
    }

    rc::Gen< Op > gen_pdu()
    {
        return rc::gen::map( rc::gen::tuple( rc::gen::weightedElement< int >( { { 10, 0 }, { 8, 1 }, { 8, 2 }, { 8, 3 }, { 5, 4 }, { 6, 5 }, { 5, 6 }, { 5, 7 }, { 2, 8 }, { 6, 9 }, { 2, 10 },
                                                 { 2, 11 }, { 3, 12 } } ),
                                 rc::gen::container< bytes >( 8, rc::gen::arbitrary< std::uint8_t >() ), verif::range< int >( 0, 255 ), gen_params( false ),
                                 rc::gen::weightedElement< int >( { { 2, 0 }, { 5, 1 } } ) ),
            []( const std::tuple< int, bytes, int, conn_params, int >& t ) {
                return make_pdu( std::get< 0 >( t ), std::get< 1 >( t ), std::get< 2 >( t ), std::get< 3 >( t ), std::get< 4 >( t ) != 0 );
            } );
    }

    rc::Gen< Op > gen_op()
    {
        auto simple = []( int kind, rc::Gen< int > n ) {
            return rc::gen::map( std::move( n ), [ kind ]( int v ) {
                Op o;
                o.kind = kind;
                o.n    = v;
                return o;
            } );
        };
        auto conn = rc::gen::map( gen_params( false ), []( const conn_params& p ) {
            Op o;
            o.kind = OP_CONN;
            o.p    = p;
            return o;
        } );
        auto bad = rc::gen::map( rc::gen::tuple( verif::range< int >( 0, 5 ), gen_params( false ) ), []( const std::tuple< int, conn_params >& t ) {
            Op o;
            o.kind = OP_BADCONN;
            o.bad  = std::get< 0 >( t );
            o.p    = std::get< 1 >( t );
            return o;
        } );
        auto app = rc::gen::map( rc::gen::tuple( rc::gen::weightedElement< int >( { { 5, APP_DISC }, { 2, APP_VER }, { 1, APP_PHY }, { 1, APP_CPR } } ), verif::range< int >( 0, 255 ) ),
            []( const std::tuple< int, int >& t ) {
                Op o;
                o.kind = OP_APP;
                o.app  = std::get< 0 >( t );
                o.a    = std::get< 1 >( t ) % 3 == 0 ? 0x13u : static_cast< unsigned >( std::get< 1 >( t ) );
                return o;
            } );
        return rc::gen::weightedOneOf< Op >( {
            { 8, conn },
            { 2, bad },
            { 2, simple( OP_ADVTO, verif::range< int >( 1, 4 ) ) },
            { 50, gen_pdu() },
            { 10, simple( OP_IDLE, verif::range< int >( 1, 4 ) ) },
            { 6, simple( OP_MISS, verif::range< int >( 1, 6 ) ) },
            { 2, simple( OP_MISS, verif::range< int >( 7, 600 ) ) },
            { 8, simple( OP_NOACK, verif::range< int >( 1, 5 ) ) },
            { 8, app },
        } );
    }

    rc::Gen< Case > gen_case()
    {
        return rc::gen::map( rc::gen::tuple( verif::range< int >( 0, static_cast< int >( configs().size() ) - 1 ), rc::gen::container< std::vector< Op > >( gen_op() ) ),
            []( const std::tuple< int, std::vector< Op > >& t ) {
                Case c;
                c.cfg = std::get< 0 >( t );
                c.ops = std::get< 1 >( t );
                return c;
            } );
    }

    std::string to_text( const Case& c )
    {
        std::ostringstream os;
        if ( c.strict_radio )
            os << "param strict-radio=1\n";
        os << "cfg " << c.cfg << "  # " << configs()[ c.cfg ].name << "\n";
        for ( auto& o : c.ops )
        {
            switch ( o.kind )
            {
            case OP_CONN: os << "conn " << params_text( o.p ) << "\n"; break;
            case OP_BADCONN: os << "badconn kind=" << o.bad << " " << params_text( o.p ) << "\n"; break;
            case OP_ADVTO: os << "advto " << o.n << "\n"; break;
            case OP_PDU:
                os << "pdu op=0x" << std::hex << o.opcode << std::dec << " body=" << verif::hex( o.body ) << " rel=" << ( o.rel == no_rel ? std::string( "-" ) : std::to_string( o.rel ) )
                   << " md=" << o.md << "\n";
                break;
            case OP_IDLE: os << "idle " << o.n << "\n"; break;
            case OP_MISS: os << "miss " << o.n << "\n"; break;
            case OP_NOACK: os << "noack " << o.n << "\n"; break;
            case OP_APP:
                if ( o.app == APP_DISC )
                    os << "app disc 0x" << std::hex << o.a << std::dec << "\n";
                else
                    os << "app " << ( o.app == APP_VER ? "ver" : o.app == APP_PHY ? "phy" : "cpr" ) << "\n";
                break;
            }
        }
        return os.str();
    }
    void showValue( const Case& c, std::ostream& os ) { os << to_text( c ); }

    Case from_text( const std::string& text )
    {
        Case         c;
        verif::Lines L( text );
        for ( auto& l : L.lines )
        {
            Op o;
            if ( l[ 0 ] == "param" )
            {
                c.strict_radio = kvi( l, "strict-radio", 0 ) != 0;
                continue;
            }
            if ( l[ 0 ] == "cfg" )
            {
                c.cfg = static_cast< int >( verif::tok_int( l, 1 ) ) % static_cast< int >( configs().size() );
                continue;
            }
            else if ( l[ 0 ] == "conn" || l[ 0 ] == "badconn" )
            {
                o.kind = l[ 0 ] == "conn" ? OP_CONN : OP_BADCONN;
                o.p    = params_from( l );
                o.bad  = static_cast< int >( kvi( l, "kind", 0 ) );
            }
            else if ( l[ 0 ] == "pdu" )
            {
                o.kind              = OP_PDU;
                o.opcode            = static_cast< int >( kvi( l, "op", 0x12 ) ) & 0xff;
                o.body              = verif::unhex( kv( l, "body", "-" ) );
                const std::string r = kv( l, "rel", "-" );
                o.rel               = r == "-" ? no_rel : static_cast< int >( std::strtol( r.c_str(), nullptr, 0 ) );
                o.md                = kvi( l, "md", 0 ) != 0;
                if ( o.body.size() > 26 )
                    o.body.resize( 26 );
            }
            else if ( l[ 0 ] == "idle" || l[ 0 ] == "miss" || l[ 0 ] == "noack" || l[ 0 ] == "advto" )
            {
                o.kind = l[ 0 ] == "idle" ? OP_IDLE : l[ 0 ] == "miss" ? OP_MISS : l[ 0 ] == "noack" ? OP_NOACK : OP_ADVTO;
                o.n    = static_cast< int >( std::max< long >( 1, verif::tok_int( l, 1, 1 ) ) );
            }
            else if ( l[ 0 ] == "app" )
            {
                o.kind              = OP_APP;
                const std::string w = verif::tok_str( l, 1, "disc" );
                o.app               = w == "ver" ? APP_VER : w == "phy" ? APP_PHY : w == "cpr" ? APP_CPR : APP_DISC;
                o.a                 = static_cast< unsigned >( verif::tok_int( l, 2, 0x13 ) ) & 0xff;
            }
            else
                continue;
            c.ops.push_back( o );
        }
        return c;
    }

    // ------------------------------------------------------------------------------------------ run
    enum mstate { M_ADV, M_CONNECTING, M_CONNECTED };

    // does the PDU produce an application callback when it is handled (documentation of connection_callbacks<>)?
    bool produces_callback( const Op& o, bool version_seen )
    {
        const std::size_t len = 1 + o.body.size();
        switch ( o.opcode )
        {
        case 0x0D: return len == 2;
        case 0x11: return len == 3;
        case 0x07: return len == 2;
        case 0x08: return len == 9;
        case 0x0C: return len == 6 && !version_seen;
        case 0x18: return len == 5 && o.body[ 0 ] <= 2 && o.body[ 1 ] <= 2;
        }
        return false;
    }

    void run( const Case& c, verif::Report& rep )
    {
        const config& cf    = configs()[ c.cfg ];
        auto          flag  = []( const char* id ) { return verif::opt_has( "exclude", id ) || verif::opt_has( "avoid", id ); };
        const bool    avoid_instant_traffic = flag( "F-21c" );
        const bool    no_overflow = flag( "F-29" );
        const bool    no_early_disconnect = flag( "F-29b" );
        const bool    trace = verif::opt( "trace" ) == "1";
        cbs()               = cb_state();
        v_open              = 42;
        auto    dev         = cf.make();
        central cen( *dev );
        cen.lenient_when_rx_full = flag( "F-27b" ) && !c.strict_radio;
        dev->run();

        mstate         st = M_ADV;
        conn_params    next_params;
        conn_params    cur;                       // parameters the model believes are in effect
        const void*    conn_ptr = nullptr;
        std::size_t    cb_seen  = 0;
        bool           established_seen = false;
        // causes for the end of a connection the model knows
        std::set< unsigned > reasons;
        bool           any_reason = false;
        bool           local_disc = false;
        bool           own_proc   = false;
        std::uint64_t  own_since  = 0;
        // connection update
        struct upd_t
        {
            bool          strict;   // nothing was queued in front of the update: it is handled in the event it was sent in
            bool          valid;
            std::uint16_t instant;
            conn_params   params;
        };
        std::deque< upd_t > updates;     // connection updates that were delivered and did not reach their instant yet
        bool           upd_pending = false, upd_valid = false, upd_strict = false;
        std::uint16_t  upd_instant = 0;
        conn_params    upd_params;
        auto           next_update = [&]() {
            upd_pending = !updates.empty();
            if ( upd_pending )
            {
                upd_valid   = updates.front().valid;
                upd_strict  = updates.front().strict;
                upd_instant = updates.front().instant;
                upd_params  = updates.front().params;
            }
        };
        bool           instant_pending = false;
        std::uint16_t  instant = 0;
        bool           version_seen = false;
        unsigned       delivered_cb_pdus = 0, reported_cb_pdus = 0;
        int            noack_left = 0;
        bool           peripheral_idle = false;
        unsigned       total_events = 0;
        constexpr unsigned max_events = 6000;

        std::set< std::string > labels;
        bool nt = false;

        auto reset_conn_model = [&]() {
            reasons.clear();
            any_reason = local_disc = own_proc = false;
            upd_pending = instant_pending = version_seen = false;
            updates.clear();
            delivered_cb_pdus = reported_cb_pdus = 0;
            established_seen = false;
            noack_left       = 0;
            peripheral_idle  = false;
        };

        // ---- check what the application was told during the radio callback that just ended
        enum step_kind { S_CONNECT, S_EVENT, S_MISSED, S_ADV };
        auto after_callback = [&]( step_kind sk, std::size_t op_index, bool connected_now ) {
            unsigned n_in_step = 0, n_other = 0;
            bool     closing_cb = false;
            for ( ; cb_seen < cbs().log.size(); ++cb_seen )
            {
                const cb_entry& e = cbs().log[ cb_seen ];
                ++n_in_step;
                if ( trace )
                    std::cerr << "  step " << e.step << " callback " << cb_name( e.kind ) << " arg 0x" << std::hex << e.arg << std::dec << "\n";
                const std::string where = verif::cat( "op ", op_index, " (radio callback ", e.step, "): callback ", cb_name( e.kind ) );
                if ( e.kind != CB_REQUESTED )
                    V_CHECK( st != M_ADV, "lifecycle.callback-without-connection", where, " although no connection is requested / after it was closed" );
                if ( e.kind != CB_REQUESTED && conn_ptr )
                    V_CHECK( e.conn == conn_ptr, "lifecycle.unknown-connection", where, " refers to a connection object that was not announced by ll_connection_requested" );
                switch ( e.kind )
                {
                case CB_REQUESTED:
                    V_CHECK( sk == S_CONNECT && st == M_ADV, "lifecycle.requested-unexpected", where, " but the central did not send a valid CONNECT_IND now" );
                    st       = M_CONNECTING;
                    conn_ptr = e.conn;
                    V_CHECK( e.interval == cur.interval && e.latency == cur.latency && e.timeout == cur.timeout, "lifecycle.requested-details", where, " reports interval ", e.interval,
                        " latency ", e.latency, " timeout ", e.timeout, " but the CONNECT_IND said ", cur.interval, "/", cur.latency, "/", cur.timeout );
                    V_CHECK( e.remote_addr == cur.init_addr, "lifecycle.requested-details", where, " reports another remote address than the initiator of the CONNECT_IND" );
                    break;
                case CB_ESTABLISHED:
                    V_CHECK( st == M_CONNECTING && !established_seen, "lifecycle.order", where, " in state ", st == M_CONNECTED ? "established (second time)" : "advertising" );
                    V_CHECK( sk == S_EVENT, "lifecycle.order", where, " without a connection event" );
                    established_seen = true;
                    st               = M_CONNECTED;
                    break;
                case CB_CHANGED:
                    V_CHECK( st == M_CONNECTED, "lifecycle.order", where, " before the connection was reported as established" );
                    V_CHECK( upd_pending && upd_valid, "lifecycle.changed-without-update", where, " although no connection update reached its instant" );
                    V_CHECK( e.interval == upd_params.interval && e.latency == upd_params.latency && e.timeout == upd_params.timeout, "lifecycle.changed-details", where,
                        " reports ", e.interval, "/", e.latency, "/", e.timeout, " but the connection update said ", upd_params.interval, "/", upd_params.latency, "/", upd_params.timeout );
                    cur.interval = upd_params.interval;
                    cur.latency  = upd_params.latency;
                    cur.timeout  = upd_params.timeout;
                    updates.pop_front();
                    next_update();
                    labels.insert( "changed-reported" );
                    break;
                case CB_CLOSED: {
                    V_CHECK( st == M_CONNECTED, "lifecycle.order", where, st == M_CONNECTING ? " for a connection that was never reported as established" : " twice" );
                    V_CHECK( !connected_now, "lifecycle.closed-unexpected", where, " but the link layer goes on with the connection" );
                    V_CHECK( any_reason || reasons.count( e.arg ), "lifecycle.closed-reason", where, " with reason 0x", std::hex, e.arg, std::dec,
                        " which is none of the reasons the history gives a cause for" );
                    labels.insert( e.arg == 0x08 || e.arg == 0x13 || e.arg == 0x16 || e.arg == 0x22 || e.arg == 0x28 ? verif::cat( "closed:0x", std::hex, e.arg ) : std::string( "closed:other-code" ) );
                    closing_cb = true;
                    st         = M_ADV;
                }
                break;
                case CB_ATTEMPT_TIMEOUT:
                    V_CHECK( st == M_CONNECTING, "lifecycle.order", where, " for a connection that was reported as established" );
                    V_CHECK( !connected_now, "lifecycle.closed-unexpected", where, " but the link layer goes on with the connection" );
                    labels.insert( "attempt-timeout" );
                    closing_cb = true;
                    st         = M_ADV;
                    break;
                default:
                    ++reported_cb_pdus;
                    ++n_other;
                    break;
                }
            }
            if ( n_in_step >= 4 )
                labels.insert( "burst:4-or-more-callbacks-in-one-radio-callback" );
            else if ( n_in_step == 3 )
                labels.insert( "burst:3-callbacks-in-one-radio-callback" );
            if ( n_in_step >= 4 || ( closing_cb && n_in_step >= 2 ) || ( !connected_now && sk != S_ADV && sk != S_CONNECT && n_other >= 1 ) )
                nt = true;
            if ( closing_cb && n_in_step >= 2 )
                labels.insert( "termination-with-queued-callbacks" );

            // completeness
            if ( sk == S_CONNECT && connected_now )
                V_CHECK( st == M_CONNECTING, "lifecycle.requested-missing", "op ", op_index, ": the link layer took the CONNECT_IND but did not call ll_connection_requested" );
            if ( sk == S_EVENT && st == M_CONNECTING && connected_now )
                verif::fail( "lifecycle.established-missing", verif::cat( "op ", op_index, ": the first connection event took place but ll_connection_established was not called",
                                                                  local_disc ? " (disconnect() was called before the first connection event)" : "" ),
                    verif::cat( "oracle=lifecycle.established-missing disconnect-before-first-event=", local_disc ? "yes" : "no" ) );
            if ( !connected_now && st != M_ADV )
            {
                const std::string sig = verif::cat( "oracle=lifecycle.closed-missing burst=", n_in_step >= 4 ? "overflow" : "no", " state=", st == M_CONNECTING ? "connecting" : "established" );
                verif::fail( st == M_CONNECTED ? "lifecycle.closed-missing" : "lifecycle.attempt-timeout-missing",
                    verif::cat( "op ", op_index, ": the link layer is advertising again but ", st == M_CONNECTED ? "ll_connection_closed" : "ll_connection_attempt_timeout (or established + closed)",
                        " was not called (", n_in_step, " other callbacks during this radio callback)" ),
                    sig );
            }
            if ( connected_now && upd_pending && !upd_strict && static_cast< std::int16_t >( dev->event_counter() - upd_instant ) > 0 )
            {
                // handled late (queued behind another procedure / a blocked transmit path): applied, or the instant has passed
                updates.pop_front();
                next_update();
                any_reason = true;
            }
            if ( connected_now && upd_pending && upd_valid && upd_strict && static_cast< std::int16_t >( dev->event_counter() - upd_instant ) > 0 )
                verif::fail( "lifecycle.changed-missing", verif::cat( "op ", op_index, ": the connection update with instant ", upd_instant, " is in effect (next event ", dev->event_counter(),
                                                              ") but ll_connection_changed was not called" ) );
            if ( connected_now && instant_pending && static_cast< std::int16_t >( dev->event_counter() - instant ) > 0 )
                instant_pending = false;
            if ( !connected_now )
                reset_conn_model();
        };

        auto connect = [&]( const conn_params& p, std::size_t op_index ) {
            if ( !cen.advertising() )
                return;
            cur = p;
            reset_conn_model();
            const bool ok = cen.connect( p );
            if ( trace )
                std::cerr << "connect " << params_text( p ) << ( ok ? " taken" : " ignored" ) << "\n";
            if ( ok )
                labels.insert( "connections" );
            after_callback( S_CONNECT, op_index, cen.connected() );
        };

        auto ensure_connected = [&]( std::size_t op_index ) {
            if ( !cen.connected() )
                connect( next_params, op_index );
            return cen.connected();
        };

        auto do_event = [&]( const std::vector< const Op* >& burst_ops, std::size_t op_index ) {
            if ( !ensure_connected( op_index ) )
                return;
            const std::uint16_t counter = dev->event_counter();
            std::vector< pdu >  burst;
            for ( auto* o : burst_ops )
            {
                pdu p{ 3, {} };
                p.payload.push_back( static_cast< std::uint8_t >( o->opcode ) );
                p.payload.insert( p.payload.end(), o->body.begin(), o->body.end() );
                if ( o->rel != no_rel )
                {
                    const unsigned inst = static_cast< std::uint16_t >( counter + o->rel );
                    if ( o->opcode == 0x00 && p.payload.size() == 12 )
                        put16( p.payload, 10, inst );
                    if ( o->opcode == 0x01 && p.payload.size() == 8 )
                        put16( p.payload, 6, inst );
                    if ( o->opcode == 0x18 && p.payload.size() == 5 )
                        put16( p.payload, 3, inst );
                }
                burst.push_back( p );
            }
            const bool ack = noack_left <= 0;
            // nothing queued on either side when this event starts, and the peripheral can transmit its answers
            const bool clean_event = ack && peripheral_idle;
            const auto res = cen.event( burst, ack );
            // idle: an acknowledged event without payload in either direction (nothing was queued, nothing is queued now)
            peripheral_idle = ack && burst.empty() && cen.last_event_quiet && cen.connected();
            ++total_events;
            if ( trace )
                std::cerr << "event t=" << cen.now_us / 1000 << "ms counter " << counter << " burst " << burst.size() << " delivered " << res.delivered << ( ack ? "" : " (no ack)" )
                          << ( res.link_closed ? " LINK CLOSED" : "" ) << "\n";
            for ( unsigned i = 0; i != res.delivered && i < burst_ops.size(); ++i )
            {
                const Op&         o   = *burst_ops[ i ];
                const std::size_t len = 1 + o.body.size();
                const bool        instant_before = instant_pending;
                if ( produces_callback( o, version_seen ) )
                    ++delivered_cb_pdus;
                if ( o.opcode == 0x0C && len == 6 )
                    version_seen = true;
                if ( o.opcode == 0x02 && len == 2 )
                    reasons.insert( o.body[ 0 ] );
                const bool future = o.rel != no_rel && o.rel >= 1 && o.rel < 30000;
                if ( ( o.opcode == 0x00 && len == 12 ) || ( o.opcode == 0x01 && len == 8 ) || ( o.opcode == 0x18 && len == 5 && ( o.body[ 0 ] || o.body[ 1 ] ) ) )
                {
                    // instant passed: by generation, or because the PDU could not be handled before (transmit path blocked)
                    reasons.insert( 0x28 );
                    if ( future )
                    {
                        instant_pending = true;
                        instant         = static_cast< std::uint16_t >( counter + o.rel );
                    }
                    if ( o.opcode == 0x00 && future )
                    {
                        upd_t u{ clean_event && !instant_before && i == 0, false, instant, cur };
                        u.params.interval = o.body[ 3 ] | ( o.body[ 4 ] << 8 );
                        u.params.latency  = o.body[ 5 ] | ( o.body[ 6 ] << 8 );
                        u.params.timeout  = o.body[ 7 ] | ( o.body[ 8 ] << 8 );
                        const unsigned long to_us = u.params.timeout * 10000ul, int_us = u.params.interval * 1250ul;
                        u.valid = u.params.interval >= 6 && u.params.interval <= 3200 && u.params.latency <= 499 && u.params.timeout >= 10 && u.params.timeout <= 3200
                            && to_us >= ( 1 + u.params.latency ) * int_us * 2 && o.body[ 0 ] * 1250ul <= std::min( 10000ul, int_us ) && ( o.body[ 1 ] | ( o.body[ 2 ] << 8 ) ) * 1250ul <= int_us;
                        if ( !u.valid || !updates.empty() )
                            any_reason = true;   // invalid parameters, or an update that is handled after the one before reached its instant (its own instant may have passed)
                        updates.push_back( u );
                        next_update();
                    }
                }
            }
            if ( noack_left > 0 )
            {
                --noack_left;
                labels.insert( "transmit-path-blocked" );
            }
            if ( own_proc && cen.now_us >= own_since + 39000000ull )
                reasons.insert( 0x22 );
            after_callback( S_EVENT, op_index, cen.connected() );
        };

        // ---- the history
        for ( std::size_t i = 0; i < c.ops.size() && total_events < max_events; ++i )
        {
            const Op& o = c.ops[ i ];
            switch ( o.kind )
            {
            case OP_CONN:
                next_params = o.p;
                connect( o.p, i );
                break;
            case OP_BADCONN: {
                if ( !cen.advertising() )
                    break;
                conn_params p = o.p;
                bytes       req;
                switch ( o.bad % 6 )
                {
                case 0: req = central::connect_ind( p ); req[ 8 ] ^= 0x10; break;              // another advertiser address
                case 1: p.timeout = 5; req = central::connect_ind( p ); break;                // supervision timeout < 100 ms
                case 2: p.chmap = { 1, 0, 0, 0, 0 }; req = central::connect_ind( p ); break;  // a single channel
                case 3: p.latency = 600; req = central::connect_ind( p ); break;              // latency > 499
                case 4: req = central::connect_ind( p ); req.resize( 20 ); req[ 1 ] = 18; break;   // truncated
                default: req = central::connect_ind( p ); req[ 0 ] = static_cast< std::uint8_t >( ( req[ 0 ] & 0xf0 ) | 3 ); break;   // a SCAN_REQ header on a connect request body
                }
                auto rx = dev->rs().adv.rx;
                if ( rx.size < req.size() )
                    break;
                std::copy( req.begin(), req.end(), rx.buffer );
                rx.size = req.size();
                cen.begin_callback( cen.now_us + 10000 );
                dev->adv_received( rx );
                labels.insert( "invalid-connect-request" );
                if ( cen.connected() )
                {
                    // taken although the model calls it invalid: nothing this property talks about, follow the link layer
                    reset_conn_model();
                    cur = p;
                    cen.sn = cen.nesn = false;
                    cen.anchor_us     = cen.now_us;
                    ++cen.conn_no;
                    any_reason = true;
                    after_callback( S_CONNECT, i, true );
                    any_reason = true;
                }
                else
                {
                    if ( !cen.advertising() )
                        break;
                    after_callback( S_ADV, i, false );
                }
            }
            break;
            case OP_ADVTO:
                for ( int k = 0; k != o.n && cen.advertising(); ++k )
                {
                    cen.adv_no_answer();
                    after_callback( S_ADV, i, false );
                }
                break;
            case OP_PDU: {
                if ( !ensure_connected( i ) )
                    break;
                std::vector< const Op* > burst;
                auto instant_carrier = []( const Op& x ) { return x.opcode == 0x00 || x.opcode == 0x01 || ( x.opcode == 0x18 && x.body.size() == 4 && ( x.body[ 0 ] || x.body[ 1 ] ) ); };
                unsigned budget_used = ( delivered_cb_pdus > reported_cb_pdus ? delivered_cb_pdus - reported_cb_pdus : 0 ) + ( st == M_CONNECTING ? 1 : 0 );
                bool     version_in_burst = version_seen;
                for ( ;; )
                {
                    const Op& x = c.ops[ i ];
                    bool      take = true;
                    if ( no_overflow && produces_callback( x, version_in_burst ) )
                    {
                        // F-29: not more than three callbacks may be queued when the connection ends
                        if ( budget_used >= 3 )
                        {
                            take         = false;
                            rep.excluded = true;
                            labels.insert( "excluded:F-29-burst-capped" );
                        }
                        else
                            ++budget_used;
                    }
                    if ( x.opcode == 0x0C && x.body.size() == 5 )
                        version_in_burst = true;
                    if ( take )
                        burst.push_back( &x );
                    const bool chain = x.md && burst.size() < 8 && i + 1 < c.ops.size() && c.ops[ i + 1 ].kind == OP_PDU
                        && !( avoid_instant_traffic && ( instant_carrier( x ) || instant_carrier( c.ops[ i + 1 ] ) ) );
                    if ( !chain )
                        break;
                    ++i;
                }
                if ( burst.empty() )
                    break;
                if ( avoid_instant_traffic && instant_carrier( *burst[ 0 ] ) )
                {
                    // F-21a / F-21c: the PDU is handled in the event it is sent in (nothing queued in front of it)
                    noack_left = 0;
                    for ( int k = 0, quiet = 0; k != 24 && quiet < 2 && cen.connected() && total_events < max_events; ++k )
                    {
                        do_event( {}, i );
                        quiet = cen.last_event_quiet ? quiet + 1 : 0;
                    }
                }
                if ( avoid_instant_traffic && instant_pending )
                {
                    rep.excluded = true;
                    labels.insert( "excluded:F-21c-traffic-held-back-until-the-instant" );
                    for ( int k = 0; k != 40 && instant_pending && cen.connected() && total_events < max_events; ++k )
                        do_event( {}, i );
                }
                if ( burst.size() >= 4 )
                    labels.insert( "burst:4-or-more-pdus-in-one-event" );
                do_event( burst, i );
            }
            break;
            case OP_IDLE:
                for ( int k = 0; k != o.n && total_events < max_events; ++k )
                    do_event( {}, i );
                break;
            case OP_MISS:
                if ( !ensure_connected( i ) )
                    break;
                for ( int k = 0; k != o.n && cen.connected(); ++k )
                {
                    // supervision timeout (or the six windows of a connection that never saw an event)
                    const std::uint64_t t = cen.next_event_time();
                    if ( t - cen.anchor_us + cur.interval * 1250ull >= cur.timeout * 10000ull || ( upd_pending && !upd_valid ) )
                        reasons.insert( 0x08 );
                    if ( local_disc && t - cen.anchor_us + cur.interval * 1250ull >= cur.timeout * 10000ull )
                        any_reason = true;
                    if ( upd_pending )
                        any_reason = true;   // supervision timeout of the old or of the new parameters
                    if ( own_proc && t >= own_since + 39000000ull )
                        reasons.insert( 0x22 );
                    cen.missed();
                    ++total_events;
                    if ( trace )
                        std::cerr << "missed t=" << cen.now_us / 1000 << "ms" << ( cen.connected() ? "" : " LINK CLOSED" ) << "\n";
                    after_callback( S_MISSED, i, cen.connected() );
                }
                labels.insert( "missed-events" );
                break;
            case OP_NOACK:
                noack_left = std::min( o.n, 6 );
                break;
            case OP_APP:
                if ( !ensure_connected( i ) )
                    break;
                peripheral_idle = false;
                switch ( o.app )
                {
                case APP_DISC:
                    if ( no_early_disconnect && st == M_CONNECTING )
                    {
                        rep.excluded = true;
                        labels.insert( "excluded:F-29b-disconnect-before-first-event" );
                        break;
                    }
                    dev->disconnect( static_cast< std::uint8_t >( o.a ) );
                    local_disc = true;
                    reasons.insert( o.a );
                    reasons.insert( 0x22 );   // the terminate procedure is not acknowledged in time
                    labels.insert( st == M_CONNECTING ? "app:disconnect-before-first-event" : "app:disconnect" );
                    break;
                case APP_VER:
                    if ( dev->ver() && !own_proc )
                    {
                        own_proc  = true;
                        own_since = cen.anchor_us;
                    }
                    break;
                case APP_PHY:
                    if ( dev->phy( 2, 2 ) && !own_proc )
                    {
                        own_proc  = true;
                        own_since = cen.anchor_us;
                    }
                    break;
                case APP_CPR:
                    if ( dev->cpr( cur.interval, cur.interval + 2, 0, cur.timeout ) && !own_proc )
                    {
                        own_proc  = true;
                        own_since = cen.anchor_us;
                    }
                    break;
                }
                break;
            }
        }

        // ---- let the peripheral handle what is queued
        noack_left = 0;
        for ( int k = 0; k != 12 && cen.connected() && total_events < max_events + 20; ++k )
            do_event( {}, c.ops.size() );

        if ( cen.rx_full_rescued )
        {
            rep.excluded = true;
            labels.insert( "excluded:F-27b-receive-ring-full" );
        }
        rep.nontrivial = nt;
        for ( auto& l : labels )
            rep.label( l );
        rep.label( verif::cat( "cfg:", cf.name ) );
        rep.label( verif::cat( "connections=", std::min( cen.conn_no, 5u ) ) );
    }
}

int main( int argc, char** argv )
{
    verif::Harness< Case > h;
    h.gen       = gen_case;
    h.to_text   = to_text;
    h.from_text = from_text;
    h.run       = run;
    return verif::run_main( argc, argv, h );
}
