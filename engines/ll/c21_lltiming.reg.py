# C21, C22 and the link-layer half of C23: one harness source (engines/ll/c21_lltiming.cpp), three targets; the generator profile, the
# oracle set and the non-trivial rule are switched on --property.
_c21_flags = ['-fsanitize-address-field-padding=1',
              '-fsanitize-ignorelist=' + _os.path.join(_os.path.dirname(_os.path.abspath(_f)), 'c21_field_padding.ignorelist')]

target('c21_instant', 'engines/ll/c21_lltiming.cpp', extra_src=LL_SRC, cxxflags=_c21_flags,
       quick=dict(cases=400000, size=80), thorough=dict(cases=5000000, size=120, max_seconds=1500))
target('c22_timing', 'engines/ll/c21_lltiming.cpp', extra_src=LL_SRC, cxxflags=_c21_flags,
       quick=dict(cases=500000, size=80), thorough=dict(cases=4000000, size=120, max_seconds=1500))
target('c23ll_latency', 'engines/ll/c21_lltiming.cpp', extra_src=LL_SRC, cxxflags=_c21_flags,
       quick=dict(cases=300000, size=80), thorough=dict(cases=3000000, size=120, max_seconds=1500))

_c21_common = ('link_layer<> (7 instantiated configurations: 6 peripheral latency configurations incl. a run-time configuration set, own sleep clock '
               'accuracies 0/20/50/100/250/500 ppm, buffers 61/61 and 100/100) runs under a harness-owned radio (derived from ll_data_pdu_buffer) and a '
               'reference central that keeps its own absolute event index, anchor times, connection parameters, channel map + hop (CSA#1 from the '
               'specification), PHY, SN/NESN and retransmissions; after every scheduling call the scheduled event (counter, channel, receive '
               'window, PHY) is compared with what the central is going to do. ')

prop('C21', ['c21_instant'], 'll',
     rule=_c21_common + 'Generated: a valid connect request (latency 0..10), then <= 80 operations: connection events that carry empty PDUs, '
          'LL_PING_REQ, ATT write commands of 0..20 bytes / write and read requests (traffic that wraps the receive ring), LL_CONNECTION_UPDATE_IND / '
          'LL_CHANNEL_MAP_IND / LL_PHY_UPDATE_IND with instant - counter in {-32768..-1, 0, 1, 2, 3..20, 32767} (counter = event in which the '
          'peripheral receives the PDU), lost replies, missed events, notify() with a generated answer of disarm_connection_event(). Non-trivial: '
          'a procedure with |instant - counter| <= 2 was received, or the latency was > 0 while a procedure was pending, or an event was missed / '
          'pulled back while a procedure was pending; distinct = distinct serialised cases',
     technique='model-based property testing (rapidcheck) of the link layer against a reference central; instants placed relative to the event counter',
     level_text='for every scheduled event the channel (old/new map), the receive window (old/new interval, transmit window at the instant), the PHY '
                'given to the radio and ll_connection_changed() must switch exactly at the event whose counter equals the instant; an instant that '
                'is not in the future must end the link with reason 0x28 in the event that carried it, a future one (>= 2 events) must not; the '
                'instant is never skipped by latency; requests the peripheral acknowledged are answered within 8 exchanges once no procedure is '
                'pending. Sampling, not proof.',
     level_note='trusted: reference central and radio in engines/ll/c21_lltiming.cpp; instant - counter == 1 may be applied or rejected (the suite '
                'pins the rejection for connection updates), == 32767 is not asserted; a central starts a procedure only when nothing else is in '
                'flight, so that the peripheral handles it in the event that carries it; situations where receive and transmit ring are both full '
                '(acknowledgements are not processed any more) are excluded from the answer deadline',
     assumptions=COMMON_ASSUME)

prop('C22', ['c22_timing'], 'll',
     rule=_c21_common + 'Generated: connect requests, 50 % valid (interval 6..3200 in three size classes and at the bounds, latency up to 60, '
          'supervision timeout preferably 1..3 x the minimum), 50 % with one field moved into an invalid or boundary class (interval 0..5 / > 3200, '
          'latency >= 500, timeout < 10 / > 3200, supervision relation violated or equal, window size 0 / 9..255 / >= interval, window offset > '
          'interval, hop outside 5..16, < 2 channels, latency x interval products that overflow 32 bit microseconds); central clock accuracy '
          'classes 500/250 ppm preferred; then <= 80 operations: events, runs of 1..40 missed events, valid connection updates (instant 2..14 '
          'ahead), pings. Non-trivial: the request is invalid / in the grey zone, or a receive window was checked after >= 1 missed event, or '
          'the supervision timeout was reached; distinct = distinct serialised cases',
     technique='model-based property testing (rapidcheck) of the link layer against a reference central with an absolute clock',
     level_text='every receive window [s,e] (relative to the last anchor) must satisfy s <= D - floor(D*ppm/1e6) + 1us and e >= D\' + floor(D\'*ppm/1e6) - 1us '
                'where D..D\' is the time (n x interval, plus the transmit window after a connect request / update until the next packet is '
                'received) at which the central may transmit in the event with that counter and ppm the sum of both sleep clock accuracies; a '
                'supervision timeout / failed connection attempt is only accepted when the missed window ended >= timeout (or 6 windows) after the '
                'last valid packet, and the link must not be kept after an event >= timeout was missed; valid requests must be accepted and '
                'established, invalid ones must not get established although the central transmits in the scheduled window. Sampling, not proof.',
     level_note='trusted: reference central in engines/ll/c21_lltiming.cpp; grey zone (window size 0 or == interval, equality in the supervision relation) '
                'is generated but only checked for crashes; a missed streak that spans a connection update instant uses the more lenient of old / '
                'new supervision timeout; the upper bound of a window is not asserted',
     assumptions=COMMON_ASSUME)

# C23 is registered by engines/comp/c23_latency.reg.py (executed before this fragment); the link-layer half only adds its target
if 'C23' in PROPERTIES:
    if 'c23ll_latency' not in PROPERTIES['C23']['targets']:
        PROPERTIES['C23']['targets'].append('c23ll_latency')
else:
    prop('C23', ['c23ll_latency'], 'll',
         rule=_c21_common + 'Generated: valid connect request with latency 0..499, events with generated radio flags (unacknowledged data, error, more data), '
              'traffic, missed events, notify() with generated disarm answers, run-time configuration switches, a few procedures with instants. '
              'Non-trivial: events were skipped and an event was pulled back or a configured condition forced a listen while latency > 0',
         technique='model-based property testing (rapidcheck) of the link layer against a reference central',
         level_text='n = counter advance in 1..latency+1, n == 1 when a configured listen condition held, counter / channel / window advance together '
                    '(also after a pull-back, which never moves before the last handled event or the reported time). Sampling, not proof.',
         level_note='provisional registration; the component level harness c23_latency is the deciding check',
         assumptions=COMMON_ASSUME)
