import hashlib as _hashlib
# the shared header is not part of the build cache key of ./check: put its hash into the flags
_c27_base = _hashlib.sha256(open(_os.path.join(_os.path.dirname(_os.path.abspath(_f)), 'c27_llbase.hpp'), 'rb').read()).hexdigest()[:16]

target('c27_control', 'engines/ll/c27_control.cpp',
       quick=dict(cases=72000, size=50), thorough=dict(cases=400000, size=80),
       extra_src=LL_SRC, cxxflags=['-DC27_LLBASE_SHA=0x' + _c27_base],
       # avoid=F-21c: while an instant is pending the central only sends empty PDUs (the deferred control PDU is
       # overwritten by later receptions on a tree without repair sketch 25); remove once F-21c is fixed in /repo
       opts={'avoid': 'F-21c,F-27b'})
prop('C27', ['c27_control'], 'll',
     rule='rapidcheck generates a link layer configuration (plain / security + desired parameters / asynchronous parameter '
          'request + signalling channel), connection parameters and a history of LL control PDUs (17 shapes: every request in '
          'its specified form, every known opcode with every other length, unsupported and response opcodes, rejects, instants '
          'relative to the event counter, encryption PDUs, random bytes; up to 6 per connection event), idle / missed / '
          'unacknowledged events (idle counts placed around the 40 s deadline) and application initiated procedures; a case is '
          'non-trivial if a known opcode arrived with a wrong length or a PDU arrived in a non-idle state (own procedure '
          'pending, instant pending, after LL_ENC_REQ, after a version exchange, transmit path blocked); distinct = distinct '
          'serialised cases',
     technique='model-based property testing (rapidcheck): in-order matching of the transmitted control PDU stream against a '
               'response table written from the specification, simulated-clock liveness/safety monitor for the 40 s procedure response timeout',
     level_text='the real link_layer runs under a harness-owned radio and central; every PDU the peripheral transmits is matched '
                'against the responses the received stream requires (validity predicates where the specification leaves a choice), '
                'and the 0x22 closure is checked against the simulated clock (not before 40 s after queueing, not after the second '
                'radio callback past 40 s after transmission, never when answered in time). Sampling, not proof.',
     level_note='trusted: response table and timeout monitor in engines/ll/c27_control.cpp, the reference central in '
                'engines/ll/c27_llbase.hpp; LL_VERSION_IND on behalf of remote_versions_request() is counted separately; a repeated '
                'version request of the application and requests after the connection parameter feature was dropped are not '
                'constrained; "eventually" is bounded liveness on the simulated clock',
     assumptions=COMMON_ASSUME)
