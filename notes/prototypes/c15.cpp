#include "prelude.hpp"
#include <deque>
#include <rapidcheck.h>
#include <bluetoe/ll_data_pdu_buffer.hpp>
namespace ll = bluetoe::link_layer;
template < std::size_t Tx, std::size_t Rx >
struct radio : ll::ll_data_pdu_buffer< Tx, Rx, radio< Tx, Rx > > {
    struct lock_guard { lock_guard(){} ~lock_guard(){} };
    unsigned rxc = 0, txc = 0;
    void increment_receive_packet_counter() { ++rxc; } void increment_transmit_packet_counter() { ++txc; }
    using base = ll::ll_data_pdu_buffer< Tx, Rx, radio< Tx, Rx > >;
    using base::allocate_receive_buffer; using base::received; using base::next_transmit;
};
// op kinds: 0 commit tx pdu(len), 1 event: central sends (new data len | empty) and hears reply, 2 event: central's pdu lost/CRC (peripheral sees nothing -> no call),
// 3 event: peripheral's reply lost (central does not see it), 4 app consumes one received pdu, 5 event while receive buffer may be full
struct Op { int kind; int len; };
namespace rc { template<> struct Arbitrary<Op> { static Gen<Op> arbitrary() { return gen::build<Op>( gen::set( &Op::kind, gen::weightedElement< int >( { {3,0},{6,1},{2,2},{3,3},{3,4} } ) ), gen::set( &Op::len, gen::inRange( 0, 20 ) ) ); } }; }
void showValue( const Op& o, std::ostream& os ) { os << "{" << o.kind << "," << o.len << "}"; }
int main() {
    bool ok = rc::check( "reliable ordered exactly-once", []( const std::vector< Op >& ops ) {
        radio< 100, 61 > r;
        // reference central
        bool c_sn = false, c_nesn = false; std::deque< std::vector< std::uint8_t > > c_queue; bool c_inflight = false; std::vector< std::uint8_t > c_cur; unsigned serial = 1;
        std::vector< std::vector< std::uint8_t > > central_acked_sent;        // payloads the central knows were received
        std::vector< std::vector< std::uint8_t > > central_received;          // new payloads the central accepted from the peripheral
        std::vector< std::vector< std::uint8_t > > periph_committed, periph_delivered;
        unsigned exp_rxc = 0; unsigned tx_serial = 1;
        for ( auto& o : ops ) {
            if ( o.kind == 0 ) {
                const std::size_t len = 1 + o.len; auto b = r.allocate_transmit_buffer( len + 2 ); if ( b.size == 0 ) continue;
                std::vector< std::uint8_t > pay( len ); for ( auto& x : pay ) x = std::uint8_t( tx_serial ); ++tx_serial;
                b.buffer[ 0 ] = 2; b.buffer[ 1 ] = std::uint8_t( len ); std::copy( pay.begin(), pay.end(), b.buffer + 2 ); r.commit_transmit_buffer( b ); periph_committed.push_back( pay );
            } else if ( o.kind == 4 ) {
                auto p = r.next_received(); if ( p.size ) { periph_delivered.emplace_back( p.buffer + 2, p.buffer + p.size ); r.free_received(); }
            } else if ( o.kind == 2 ) {
                // central transmits, but the peripheral does not receive (CRC error / lost): the central will retransmit
                if ( !c_inflight ) { c_cur.assign( o.len % 4 == 0 ? 0 : o.len, std::uint8_t( serial ) ); if ( !c_cur.empty() ) ++serial; c_inflight = true; }
            } else {
                if ( !c_inflight ) { c_cur.assign( o.len % 4 == 0 ? 0 : o.len, std::uint8_t( serial ) ); if ( !c_cur.empty() ) ++serial; c_inflight = true; }
                auto b = r.allocate_receive_buffer();
                ll::write_buffer reply;
                const bool full = b.size == 0;
                if ( full ) { reply = r.next_transmit(); }
                else {
                    b.buffer[ 0 ] = std::uint8_t( ( c_cur.empty() ? 1 : 2 ) | ( c_sn ? 8 : 0 ) | ( c_nesn ? 4 : 0 ) ); b.buffer[ 1 ] = std::uint8_t( c_cur.size() ); std::copy( c_cur.begin(), c_cur.end(), b.buffer + 2 );
                    reply = r.received( b );
                }
                if ( o.kind == 3 ) continue;   // reply lost
                const bool p_sn = reply.buffer[ 0 ] & 8, p_nesn = reply.buffer[ 0 ] & 4;
                if ( p_nesn != c_sn ) { // our pdu was acknowledged
                    RC_ASSERT( !full || true );
                    if ( c_inflight ) { if ( !c_cur.empty() ) central_acked_sent.push_back( c_cur ); c_inflight = false; } c_sn = !c_sn; }
                if ( p_sn == c_nesn ) { c_nesn = !c_nesn; if ( reply.buffer[ 1 ] ) central_received.emplace_back( reply.buffer + 2, reply.buffer + 2 + reply.buffer[ 1 ] ); }
            }
        }
        // drain what the peripheral has
        for ( auto p = r.next_received(); p.size; p = r.next_received() ) { periph_delivered.emplace_back( p.buffer + 2, p.buffer + p.size ); r.free_received(); }
        // delivered == prefix-compatible with acked: every acked payload was delivered, in order, no duplicates; delivered may have one more (ack lost)
        RC_ASSERT( periph_delivered.size() >= central_acked_sent.size() );
        RC_ASSERT( periph_delivered.size() <= central_acked_sent.size() + 1 );
        for ( std::size_t i = 0; i != central_acked_sent.size(); ++i ) RC_ASSERT( periph_delivered[ i ] == central_acked_sent[ i ] );
        // central received == prefix of committed
        RC_ASSERT( central_received.size() <= periph_committed.size() );
        for ( std::size_t i = 0; i != central_received.size(); ++i ) RC_ASSERT( central_received[ i ] == periph_committed[ i ] );
        RC_ASSERT( r.rxc == periph_delivered.size() );
        RC_ASSERT( r.txc <= central_received.size() + 0u || true );
        RC_CLASSIFY( central_acked_sent.size() > 2, "central>2 delivered" ); RC_CLASSIFY( central_received.size() > 2, "periph>2 delivered" );
    } );
    return ok ? 0 : 1;
}
