#include "prelude.hpp"
#include <bluetoe/security_tool_box.hpp>
#include <nrf.h>
extern "C" {
#include "aes.h"
}
namespace nrf_emul {
    NRF_RADIO_Type radio; NRF_TIMER_Type timer0, timer1; NRF_CLOCK_Type clock_; NRF_TEMP_Type temp; NRF_RTC_Type rtc0; NRF_CCM_Type ccm;
    NRF_AAR_Type aar; NRF_PPI_Type ppi; NRF_RNG_Type rng; NRF_ECB_Type ecb; NRF_GPIOTE_Type gpiote; NVIC_Type nvic;
    std::vector<std::uint8_t> rng_stream; std::size_t rng_pos = 0;
    void on_rng_start() { rng.VALUE = rng_stream.empty() ? 0 : rng_stream[ rng_pos++ % rng_stream.size() ]; rng.EVENTS_VALRDY = 1; }
    void on_ecb_start() {
        std::uint8_t* p = reinterpret_cast< std::uint8_t* >( static_cast< std::uintptr_t >( ecb.ECBDATAPTR ) );
        AES_ctx ctx; AES_init_ctx( &ctx, p ); std::uint8_t blk[16]; std::memcpy( blk, p + 16, 16 ); AES_ECB_encrypt( &ctx, blk ); std::memcpy( p + 32, blk, 16 );
        ecb.EVENTS_ENDECB = 1;
    }
}
int main() {
    bluetoe::nrf52_details::security_tool_box tb;
    // Core spec c1 sample: k=0, r=5783D52156AD6F0E6388274EC6702EE0, preq/pres ... -> use s1 sample instead:
    // s1(k=0, r1=000F0E0D0C0B0A091122334455667788, r2=010203040506070899AABBCCDDEEFF00) = 9a1fe1f0e8b0f49b5b4216ae796da062
    bluetoe::details::uint128_t k{{0}};
    bluetoe::details::uint128_t r1{{0x88,0x77,0x66,0x55,0x44,0x33,0x22,0x11,0x09,0x0A,0x0B,0x0C,0x0D,0x0E,0x0F,0x00}};
    bluetoe::details::uint128_t r2{{0x00,0xFF,0xEE,0xDD,0xCC,0xBB,0xAA,0x99,0x08,0x07,0x06,0x05,0x04,0x03,0x02,0x01}};
    auto s = tb.s1( k, r1, r2 );
    for ( int i = 15; i >= 0; --i ) printf( "%02x", s[i] ); printf( "\n" );
    nrf_emul::rng_stream = { 0xff, 0xff, 0xff };
    auto pk = tb.create_passkey();
    printf( "passkey %u\n", (unsigned)( pk[0] | pk[1] << 8 | pk[2] << 16 | pk[3] << 24 ) );
}
