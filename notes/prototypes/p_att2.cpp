#include "prelude.hpp"
#include <bluetoe/server.hpp>
using namespace bluetoe;
std::uint8_t big[ 60 ]; std::uint8_t a = 0xA1, b = 0xB2, c = 0xC3; std::uint8_t enc = 0xE5;
std::uint8_t hval = 0x77; unsigned hreads = 0, hwrites = 0; std::size_t last_wsize = 99; const std::uint8_t* last_wptr = (const std::uint8_t*)1;
std::uint8_t rd( std::size_t, std::uint8_t* out, std::size_t& n ) { ++hreads; out[0] = hval; n = 1; return error_codes::success; }
std::uint8_t wr( std::uint8_t v ) { ++hwrites; hval = v; return error_codes::success; }
using UA = characteristic_uuid16< 0x2A01 >; using UB = characteristic_uuid16< 0x2A02 >; using UC = characteristic_uuid16< 0x2A03 >;
using srv = server< max_mtu_size< 65 >, shared_write_queue< 64 >, no_gap_service_for_gatt_servers,
  service< service_uuid16< 0x1815 >,
     characteristic< UA, bind_characteristic_value< decltype( a ), &a >, notify, indicate >,
     characteristic< UB, bind_characteristic_value< decltype( b ), &b >, notify, indicate >,
     characteristic< UC, bind_characteristic_value< decltype( c ), &c >, notify, indicate >,
     higher_outgoing_priority< UC > >,
  service< service_uuid16< 0x1816 >,
     characteristic< characteristic_uuid16< 0x2A04 >, bind_characteristic_value< decltype( big ), &big >, notify >,
     characteristic< characteristic_uuid16< 0x2A05 >, free_read_handler< &rd >, free_write_handler< std::uint8_t, &wr >, no_read_access, notify >,
     characteristic< characteristic_uuid16< 0x2A06 >, bind_characteristic_value< decltype( enc ), &enc >, requires_encryption > >
>;
struct conn_t : srv::channel_data_t< details::link_state > {};
srv s; conn_t cn;
static bool lcb( const details::notification_data& item, void*, details::notification_type type ) {
    switch ( type ) { case details::notification_type::notification: return cn.queue_notification( item.client_characteristic_configuration_index() );
                      case details::notification_type::indication: return cn.queue_indication( item.client_characteristic_configuration_index() );
                      default: cn.indication_confirmed(); return true; } }
static void show( const char* t, const std::uint8_t* p, std::size_t n ) { printf( "%-28s", t ); for ( std::size_t i = 0; i != n; ++i ) printf( " %02x", p[i] ); printf( "  (%zu)\n", n ); }
static void req( const char* t, std::initializer_list< std::uint8_t > in ) { std::vector< std::uint8_t > i( in ); std::uint8_t out[ 65 ]; std::size_t n = 65; s.l2cap_input( i.data(), i.size(), out, n, cn ); show( t, out, n ); }
static void out( const char* t ) { std::uint8_t o[ 65 ]; std::size_t n = 65; s.l2cap_output( o, n, cn ); show( t, o, n ); }
int main() { setvbuf( stdout, nullptr, _IONBF, 0 );
    for ( auto& x : big ) x = 0x5a;
    s.notification_callback( lcb, nullptr );
    for ( std::size_t i = 0; ; ++i ) { auto h = srv::handle_mapping::handle_by_index( i ); if ( !h ) break; printf( "%zu:%02x:%04x ", i, h, srv::attribute_at( i ).uuid ); } printf( "\n" );
    req( "prepare write to CCCD h=4", { 0x16, 0x04, 0x00, 0x00, 0x00, 0x01, 0x00 } );
    // F-01a
    req( "signed write cmd 0xD2", { 0xD2, 0x03, 0x00, 0x01 } ); req( "client notification 0x1B", { 0x1B, 0x03, 0x00, 0x01 } ); req( "unknown cmd 0x7F", { 0x7F } );
    // subscribe all CCCDs: handles 4,7,10 (svc1), 13, 16
    req( "cccd A=3", { 0x12, 0x04, 0x00, 0x03, 0x00 } ); req( "cccd B=3", { 0x12, 0x07, 0x00, 0x03, 0x00 } ); req( "cccd C=3", { 0x12, 0x0a, 0x00, 0x03, 0x00 } ); req( "cccd big=1", { 0x12, 0x0e, 0x00, 0x01, 0x00 } );
    // F-10 notify by value with priorities
    s.notify( a ); out( "notify(a) ->" ); s.notify( c ); out( "notify(c) ->" ); s.notify< UA >(); out( "notify<UA> ->" );
    // F-08 long notification without MTU exchange
    s.notify( big ); out( "notify(big), mtu 23 ->" );
    // F-11: indicate unsubscribed then subscribed
    req( "cccd B=0", { 0x12, 0x07, 0x00, 0x00, 0x00 } ); printf( "indicate(b) unsub: %d\n", (int)s.indicate( b ) ); out( "poll ->" );
    req( "cccd B=2", { 0x12, 0x07, 0x00, 0x02, 0x00 } ); printf( "indicate(b) sub: %d\n", (int)s.indicate( b ) ); out( "poll ->" ); out( "poll ->" );
    // F-06 read of no_read_access handler char (value handle 0x0f?)
    req( "read no_read_access (h=0x10)", { 0x0a, 0x10, 0x00 } ); printf( "hreads %u\n", hreads );
    // F-07 prepare write to handler char with free_write_handler<uint8_t>
    req( "prepare write h=0x10", { 0x16, 0x10, 0x00, 0x00, 0x00, 0x42 } ); printf( "hwrites %u\n", hwrites );
    req( "write h=0x10", { 0x12, 0x10, 0x00, 0x42 } );
    // F-07 prepare to protected char on encrypted link (value handle 0x13?)
    cn.is_encrypted( true ); cn.pairing_status( device_pairing_status::unauthenticated_key );
    req( "write enc (encrypted link)", { 0x12, 0x13, 0x00, 0x01 } ); req( "prepare enc (encrypted link)", { 0x16, 0x13, 0x00, 0x00, 0x00, 0x02 } );
    // F-14

}
