#include "prelude.hpp"
#include <bluetoe/ll_data_pdu_buffer.hpp>
namespace ll = bluetoe::link_layer;
template < std::size_t Tx, std::size_t Rx >
struct radio : ll::ll_data_pdu_buffer< Tx, Rx, radio< Tx, Rx > > {
    struct lock_guard { lock_guard(){} ~lock_guard(){} };
    unsigned rxc = 0, txc = 0;
    void increment_receive_packet_counter() { ++rxc; } void increment_transmit_packet_counter() { ++txc; }
    using base = ll::ll_data_pdu_buffer< Tx, Rx, radio< Tx, Rx > >;
    using base::allocate_receive_buffer; using base::received; using base::next_transmit;
    ll::write_buffer mic_failure( ll::read_buffer b ) { return this->acknowledge( b ); }
};
int main() {
    setvbuf( stdout, nullptr, _IONBF, 0 );
    {   // F-18 ring: Size 29, empty with pointers mid-buffer
        std::uint8_t store[ 29 ]; ll::pdu_ring_buffer< 29 > ring( store );
        auto b = ring.alloc_front( store, 29 ); printf( "alloc 29 on fresh ring: %zu\n", b.size );
        b.buffer[0] = 2; b.buffer[1] = 5; ring.push_front( store, b ); ring.pop_end( store );
        printf( "empty again: %d; alloc 28: %zu, alloc 20: %zu\n", (int)( ring.next_end().size == 0 ), ring.alloc_front( store, 28 ).size, ring.alloc_front( store, 20 ).size );
    }
    {   // the same through ll_data_pdu_buffer with the minimal receive size
        radio< 29, 29 > r;
        auto b = r.allocate_receive_buffer(); printf( "rx alloc #1: %zu\n", b.size );
        b.buffer[0] = 0x02; b.buffer[1] = 5; r.received( b ); r.free_received();
        b = r.allocate_receive_buffer(); printf( "rx alloc #2 after consuming a 5 byte PDU: %zu\n", b.size );
    }
    {   // F-17 MIC failure on a new PDU
        radio< 61, 61 > r;
        auto b = r.allocate_receive_buffer(); b.buffer[0] = 0x02; b.buffer[1] = 3;   // SN=0 NESN=0, new data PDU
        auto t = r.mic_failure( b );
        printf( "after MIC failure on new PDU: peripheral NESN=%d delivered=%zu rx counter=%u\n", ( t.buffer[0] & 4 ) ? 1 : 0, r.next_received().size, r.rxc );
    }
}
