#include "prelude.hpp"
#include <bluetoe/link_state.hpp>
#include <bluetoe/security_manager.hpp>
#include <bluetoe/address.hpp>
using namespace bluetoe;
using u128 = details::uint128_t;
struct toy {
    link_layer::device_address local_address() const { return link_layer::public_device_address( { 1,2,3,4,5,6 } ); }
    static u128 mix( const u128& a, const u128& b, std::uint8_t salt ) { u128 r; for ( int i = 0; i != 16; ++i ) r[i] = std::uint8_t( a[i] * 31 + b[(i+5)%16] * 17 + salt + i ); return r; }
    u128 create_srand() { return u128{{1,2,3}}; }
    details::longterm_key_t create_long_term_key() { return { u128{{9,9}}, 0x1122334455667788ull, 0x4242 }; }
    u128 c1( const u128& k, const u128& r, const u128& p1, const u128& p2 ) const { return mix( mix( k, r, 1 ), mix( p1, p2, 2 ), 3 ); }
    u128 s1( const u128& k, const u128& a, const u128& b ) { return mix( k, mix( a, b, 4 ), 5 ); }
    bool is_valid_public_key( const std::uint8_t* k ) const { return k[0] != 0xff; }
    std::pair< details::ecdh_public_key_t, details::ecdh_private_key_t > generate_keys() { details::ecdh_public_key_t p{}; p[0] = 0x42; return { p, {} }; }
    u128 select_random_nonce() { return u128{{7}}; }
    details::ecdh_shared_secret_t p256( const std::uint8_t*, const std::uint8_t* ) { return {}; }
    u128 f4( const std::uint8_t* u, const std::uint8_t* v, const u128& k, std::uint8_t z ) { u128 a{}, b{}; std::copy( u, u+16, a.begin() ); std::copy( v, v+16, b.begin() ); return mix( mix( a, b, z ), k, 6 ); }
    std::pair< u128, u128 > f5( const details::ecdh_shared_secret_t, const u128& a, const u128& b, const link_layer::device_address&, const link_layer::device_address& ) { return { mix( a, b, 7 ), mix( b, a, 8 ) }; }
    u128 f6( const u128& k, const u128& n1, const u128& n2, const u128&, const details::io_capabilities_t& io, const link_layer::device_address&, const link_layer::device_address& ) { u128 x = mix( n1, n2, io[0] + io[2] ); return mix( k, x, 9 ); }
    std::uint32_t g2( const std::uint8_t*, const std::uint8_t*, const u128&, const u128& ) { return 123456; }
    u128 create_passkey() { return u128{{0x40, 0xe2, 0x01}}; }
};
struct io_t {
    pairing_yes_no_response* pending = nullptr; int shown = -1;
    void sm_pairing_yes_no( pairing_yes_no_response& r ) { pending = &r; }
    void sm_pairing_numeric_output( int v ) { shown = v; }
} io;
template < class Manager, typename ... Options >
struct sm_t : Manager::template impl< sm_t< Manager, Options... >, Options... >, toy {
    using manager_type = typename Manager::template impl< toy, Options... >;
    using connection_data_t = typename manager_type::template channel_data_t< details::link_state >;
    connection_data_t con = connection_data_t();
    sm_t() { con.remote_connection_created( link_layer::random_device_address( { 9,9,9,9,9,0xc9 } ) ); }
    std::vector< std::uint8_t > in( std::vector< std::uint8_t > pdu ) { std::uint8_t out[ 65 ]; std::size_t n = 65; this->l2cap_input( pdu.data(), pdu.size(), out, n, con ); return { out, out + n }; }
    std::vector< std::uint8_t > out() { std::uint8_t o[ 65 ]; std::size_t n = 65; this->l2cap_output( o, n, con ); return { o, o + n }; }
};
static void show( const char* t, const std::vector< std::uint8_t >& v ) { printf( "%s:", t ); for ( auto b : v ) printf( " %02x", b ); printf( "\n" ); }
int main() {
    sm_t< security_manager, pairing_yes_no< io_t, io >, pairing_numeric_output< io_t, io > > s;
    show( "rsp", s.in( { 0x01, 0x01, 0x00, 0x0d, 0x10, 0x00, 0x00 } ) );   // LESC, DisplayYesNo, MITM|SC|bond
    printf( "algo %d state %d\n", (int)s.con.lesc_pairing_algorithm(), (int)s.con.state() );
    std::vector< std::uint8_t > pk( 65, 0x11 ); pk[0] = 0x0c; show( "pk", s.in( pk ) );
    show( "out(confirm)", s.out() );
    std::vector< std::uint8_t > rnd( 17, 0x22 ); rnd[0] = 0x04; show( "rand", s.in( rnd ) );
    printf( "state %d shown %d pending %p\n", (int)s.con.state(), io.shown, (void*)io.pending );
    std::vector< std::uint8_t > dh( 17, 0x33 ); dh[0] = 0x0d; show( "dhkey(garbage) while waiting", s.in( dh ) );
    printf( "state %d\n", (int)s.con.state() );
    io.pending->yes_no_response( true );
    show( "out after yes", s.out() );
    printf( "state %d status %d key? %d\n", (int)s.con.state(), (int)s.con.local_device_pairing_status(), (int)s.con.find_key( 0, 0 ).first );
}
