#include "prelude.hpp"
#include <memory>
#include <bluetoe/server.hpp>
#include <bluetoe/ll_data_pdu_buffer.hpp>
#include <bluetoe/link_layer.hpp>
#include <string>
#include <rapidcheck.h>
using namespace bluetoe;
namespace ll = bluetoe::link_layer;

struct sched_adv { unsigned channel; std::vector<std::uint8_t> pdu; ll::delta_time when; ll::read_buffer rx; };
struct sched_evt { unsigned channel; ll::delta_time start, end, interval; };

template < std::size_t Tx, std::size_t Rx, typename CB >
class verif_radio : public ll::ll_data_pdu_buffer< Tx, Rx, verif_radio< Tx, Rx, CB > >
{
public:
    using buf = ll::ll_data_pdu_buffer< Tx, Rx, verif_radio< Tx, Rx, CB > >;
    std::vector<sched_adv> advs; std::vector<sched_evt> evts;
    bool adv_pending = false, evt_pending = false; int wake = 0; bool cancel_req = false;
    std::uint32_t aa = 0, crc = 0; unsigned rx_cnt = 0, tx_cnt = 0;
    std::pair<bool, ll::delta_time> disarm_answer{ false, ll::delta_time() };

    void schedule_advertisment( unsigned channel, const ll::write_buffer& adv, const ll::write_buffer&, ll::delta_time when, const ll::read_buffer& rx )
    { advs.push_back( { channel, std::vector<std::uint8_t>( adv.buffer, adv.buffer + adv.size ), when, rx } ); adv_pending = true; evt_pending = false; }
    ll::delta_time schedule_connection_event( unsigned channel, ll::delta_time s, ll::delta_time e, ll::delta_time i )
    { evts.push_back( { channel, s, e, i } ); evt_pending = true; adv_pending = false; return ll::delta_time(); }
    std::pair< bool, ll::delta_time > disarm_connection_event() { if ( disarm_answer.first ) { evts.pop_back(); evt_pending = false; } return disarm_answer; }
    bool schedule_synchronized_user_timer( ll::delta_time, ll::delta_time ) { return false; }
    bool cancel_synchronized_user_timer() { return false; }
    void set_access_address_and_crc_init( std::uint32_t a, std::uint32_t c ) { aa = a; crc = c; }
    std::uint32_t static_random_address_seed() const { return 0x47110815; }
    void run() {}
    void wake_up() { ++wake; }
    void request_event_cancelation() { cancel_req = true; }
    void radio_set_phy( ll::phy_ll_encoding::phy_ll_encoding_t, ll::phy_ll_encoding::phy_ll_encoding_t ) {}
    void increment_receive_packet_counter() { ++rx_cnt; }
    void increment_transmit_packet_counter() { ++tx_cnt; }
    struct lock_guard { lock_guard(){} ~lock_guard(){} };
    static constexpr std::size_t radio_maximum_white_list_entries = 0;
    static constexpr bool hardware_supports_encryption = true;
    static constexpr bool hardware_supports_lesc_pairing = true;
    static constexpr bool hardware_supports_legacy_pairing = true;
    // toy toolbox
    using u128 = bluetoe::details::uint128_t;
    static u128 mix( const u128& a, const u128& b, std::uint8_t salt ) { u128 r; for ( int i = 0; i != 16; ++i ) r[i] = std::uint8_t( a[i] * 31 + b[(i+5)%16] * 17 + salt + i ); return r; }
    u128 create_srand() { return u128{{1,2,3}}; }
    bluetoe::details::longterm_key_t create_long_term_key() { return { u128{{9,9}}, 0x1122334455667788ull, 0x4242 }; }
    u128 c1( const u128& k, const u128& r, const u128& p1, const u128& p2 ) const { return mix( mix( k, r, 1 ), mix( p1, p2, 2 ), 3 ); }
    u128 s1( const u128& k, const u128& a, const u128& b ) { return mix( k, mix( a, b, 4 ), 5 ); }
    bool is_valid_public_key( const std::uint8_t* k ) const { return k[0] != 0xff; }
    std::pair< bluetoe::details::ecdh_public_key_t, bluetoe::details::ecdh_private_key_t > generate_keys() { return {}; }
    u128 select_random_nonce() { return u128{{7}}; }
    bluetoe::details::ecdh_shared_secret_t p256( const std::uint8_t*, const std::uint8_t* ) { return {}; }
    u128 f4( const std::uint8_t*, const std::uint8_t*, const u128& k, std::uint8_t ) { return k; }
    std::pair< u128, u128 > f5( const bluetoe::details::ecdh_shared_secret_t, const u128& a, const u128& b, const ll::device_address&, const ll::device_address& ) { return { a, b }; }
    u128 f6( const u128& k, const u128&, const u128&, const u128&, const bluetoe::details::io_capabilities_t&, const ll::device_address&, const ll::device_address& ) { return k; }
    std::uint32_t g2( const std::uint8_t*, const std::uint8_t*, const u128&, const u128& ) { return 123456; }
    u128 create_passkey() { return u128{{0x40, 0xe2, 0x01}}; }
    std::pair< std::uint64_t, std::uint32_t > setup_encryption( u128, std::uint64_t, std::uint32_t ) { return { 0x1111, 0x2222 }; }
    bool rx_enc = false, tx_enc = false;
    void start_receive_encrypted() { rx_enc = true; } void start_transmit_encrypted() { tx_enc = true; }
    void stop_receive_encrypted() { rx_enc = false; } void stop_transmit_encrypted() { tx_enc = false; }
    static constexpr bool hardware_supports_2mbit = true;
    static constexpr bool hardware_supports_synchronized_user_timer = false;
    static constexpr unsigned connection_event_setup_time_us = 100u;
    // harness access to protected radio-side interface
    using buf::allocate_receive_buffer; using buf::received; using buf::next_transmit; ll::write_buffer mic_failure( ll::read_buffer b ) { return this->acknowledge( b ); }
};

std::uint8_t v1 = 42;
using srv = server< service< service_uuid16<0x1815>, characteristic< characteristic_uuid16<0x2A01>, bind_characteristic_value<decltype(v1), &v1>, notify, requires_encryption > > >;

static std::vector<std::string> cblog;
struct cb_t {

    template < class C > void ll_connection_requested( const ll::connection_details&, const ll::connection_addresses&, C& ) { cblog.push_back("requested"); }
    template < class C > void ll_connection_established( const ll::connection_details&, const ll::connection_addresses&, C& ) { cblog.push_back("established"); }
    template < class C > void ll_connection_closed( std::uint8_t r, C& ) { cblog.push_back("closed " + std::to_string(r)); }
    template < class C > void ll_connection_changed( const ll::connection_details&, C& ) { cblog.push_back("changed"); }
    template < class C > void ll_connection_attempt_timeout( C& ) { cblog.push_back("attempt_timeout"); }
    template < class C > void ll_version( std::uint8_t, std::uint16_t, std::uint16_t, C& ) { cblog.push_back("version"); }
    template < class C > void ll_rejected( std::uint8_t, C& ) { cblog.push_back("rejected"); }
    template < class C > void ll_unknown( std::uint8_t, C& ) { cblog.push_back("unknown"); }
    template < class C > void ll_remote_features( std::uint8_t*, C& ) { cblog.push_back("features"); }
    template < class C > void ll_phy_updated( ll::phy_ll_encoding::phy_ll_encoding_t, ll::phy_ll_encoding::phy_ll_encoding_t, C& ) { cblog.push_back("phy"); }
} cbs;

struct dev : ll::link_layer< srv, verif_radio, ll::connection_callbacks< cb_t, cbs >, ll::static_address< 0xc0, 0x0f, 0x15, 0x08, 0x11, 0x47 > > {};


struct Step { int kind; int opcode; int len; std::vector< std::uint8_t > payload; int rel; };
namespace rc { template<> struct Arbitrary<Step> { static Gen<Step> arbitrary() { return gen::build<Step>(
    gen::set( &Step::kind, gen::weightedElement< int >( { {10,0},{3,1},{2,2},{2,3},{1,4},{1,5} } ) ),
    gen::set( &Step::opcode, gen::oneOf( gen::inRange( 0, 0x1a ), gen::inRange( 0, 256 ) ) ),
    gen::set( &Step::len, gen::inRange( 0, 28 ) ),
    gen::set( &Step::payload, gen::container< std::vector< std::uint8_t > >( 27, gen::arbitrary< std::uint8_t >() ) ),
    gen::set( &Step::rel, gen::inRange( -3, 12 ) ) ); } }; }
void showValue( const Step& o, std::ostream& os ) { os << "{k" << o.kind << " op" << o.opcode << " len" << o.len << " rel" << o.rel << "}"; }
static const std::uint8_t creq[] = { 0xc5, 0x22, 0x3c,0x1c,0x62,0x92,0xf0,0x48, 0x47,0x11,0x08,0x15,0x0f,0xc0, 0x5a,0xb3,0x9a,0xaf, 0x08,0x81,0xf6, 0x03, 0x0b,0x00, 0x18,0x00, 0x02,0x00, 0x48,0x00, 0xff,0xff,0xff,0xff,0x1f, 0xaa };
int main() {
    bool ok = rc::check( "link layer survives arbitrary control pdus", []( const std::vector< Step >& steps ) {
        cblog.clear();
        auto dp = std::make_unique< dev >(); dev& d = *dp; d.run();
        bool sn = false, nesn = false;
        auto connect = [&]{ auto rx = d.advs.back().rx; std::copy( std::begin(creq), std::end(creq), rx.buffer ); rx.size = sizeof creq; d.adv_received( rx ); sn = nesn = false; };
        connect();
        for ( auto& st : steps ) {
            if ( d.adv_pending && !d.evt_pending ) { if ( st.kind == 5 ) { d.adv_timeout(); continue; } connect(); if ( !d.evt_pending ) continue; }
            if ( st.kind == 1 ) { d.timeout(); continue; }
            if ( st.kind == 2 ) { d.notify( v1 ); if ( d.cancel_req ) { d.cancel_req = false; d.disarm_answer = { st.rel > 0, ll::delta_time( 1000 ) }; d.try_event_cancelation(); } continue; }
            if ( st.kind == 4 ) { d.disconnect(); continue; }
            auto b = d.allocate_receive_buffer(); ll::write_buffer t;
            if ( b.size == 0 ) { t = d.next_transmit(); }
            else {
                std::vector< std::uint8_t > pdu;
                if ( st.kind == 0 ) { pdu = { 0x03, std::uint8_t( st.len ), std::uint8_t( st.opcode ) }; pdu.insert( pdu.end(), st.payload.begin(), st.payload.end() ); pdu.resize( 2 + st.len );
                    // place instants relative to the current counter for the instant based procedures
                    const std::uint16_t inst = std::uint16_t( d.connection_event_counter() + st.rel );
                    if ( st.opcode == 0 && st.len == 12 ) { pdu[ 12 ] = inst & 0xff; pdu[ 13 ] = inst >> 8; }
                    if ( st.opcode == 1 && st.len == 8 ) { pdu[ 8 ] = inst & 0xff; pdu[ 9 ] = inst >> 8; }
                    if ( st.opcode == 0x18 && st.len == 5 ) { pdu[ 5 ] = inst & 0xff; pdu[ 6 ] = inst >> 8; } }
                else { pdu = { 0x02, std::uint8_t( 4 + st.len % 20 ), std::uint8_t( st.len % 20 ), 0x00, std::uint8_t( 4 + st.opcode % 3 ), 0x00 }; pdu.insert( pdu.end(), st.payload.begin(), st.payload.end() ); pdu.resize( 6 + st.len % 20 ); }
                std::copy( pdu.begin(), pdu.end(), b.buffer ); b.buffer[ 0 ] = ( b.buffer[ 0 ] & 3 ) | ( sn ? 8 : 0 ) | ( nesn ? 4 : 0 );
                t = d.received( b );
            }
            if ( bool( t.buffer[ 0 ] & 4 ) != sn ) sn = !sn; if ( bool( t.buffer[ 0 ] & 8 ) == nesn ) nesn = !nesn;
            ll::connection_event_events e; e.last_received_not_empty = true; d.end_event( e );
        }
    } );
    return ok ? 0 : 1;
}
