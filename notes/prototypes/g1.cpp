#include "prelude.hpp"
#include <bluetoe/server.hpp>
using namespace bluetoe;
namespace cfg {
std::uint8_t  v0[ 37 ]; std::uint16_t v1; const std::uint32_t v2 = 0xdeadbeef; std::uint8_t v3[ 3 ]; std::uint8_t v4; std::uint8_t v5[20]; std::uint8_t v6;
static constexpr char name0[] = "generated server with a long name";
static constexpr char cname0[] = "char name";
static const std::uint8_t blob0[] = { 1,2,3,4,5,6,7 };
static const std::uint8_t desc0[] = { 9,8,7 };
std::uint8_t hstore[ 50 ]; std::size_t hlen = 10; unsigned hreads = 0, hwrites = 0;
std::uint8_t rd_blob( std::size_t offset, std::size_t read_size, std::uint8_t* out, std::size_t& out_size ) { ++hreads; if ( offset > hlen ) return error_codes::invalid_offset; out_size = std::min( read_size, hlen - offset ); std::copy( hstore + offset, hstore + offset + out_size, out ); return error_codes::success; }
std::uint8_t wr_blob( std::size_t offset, std::size_t write_size, const std::uint8_t* value ) { ++hwrites; if ( offset > sizeof hstore ) return error_codes::invalid_offset; if ( offset + write_size > sizeof hstore ) return error_codes::invalid_attribute_value_length; std::copy( value, value + write_size, hstore + offset ); hlen = std::max( hlen, offset + write_size ); return error_codes::success; }
struct cccd_cb_t { unsigned calls = 0; template < class S > void client_characteristic_configuration_updated( S&, const details::client_characteristic_configuration& ) { ++calls; } } cccd_cb;
using S0 = service_uuid< 0x8C8B4094, 0x0DE2, 0x499F, 0xA28A, 0x4EED5BC73CA9 >;
using C01 = characteristic_uuid16< 0x2A19 >;
using C02 = characteristic_uuid< 0x8C8B4094, 0x0DE2, 0x499F, 0xA28A, 0x4EED5BC73CAA >;
using server_t = server<
    shared_write_queue< 64 >, max_mtu_size< 65 >, server_name< name0 >, requires_encryption,
    client_characteristic_configuration_update_callback< cccd_cb_t, cccd_cb >,
    service< S0, attribute_handle< 0x10 >,
        characteristic< bind_characteristic_value< decltype( v0 ), &v0 >, notify, indicate, characteristic_name< cname0 > >,
        characteristic< C01, bind_characteristic_value< decltype( v1 ), &v1 >, no_write_access, notify, attribute_handles< 0x20, 0x22, 0x30 >, no_encryption_required >,
        characteristic< C02, bind_characteristic_value< decltype( v2 ), &v2 >, descriptor< 0x2904, desc0, sizeof desc0 > >,
        higher_outgoing_priority< C01 >
    >,
    service< service_uuid16< 0x180F >, is_secondary_service, no_encryption_required,
        characteristic< characteristic_uuid16< 0x2A1A >, fixed_blob_value< blob0, sizeof blob0 > >,
        characteristic< characteristic_uuid16< 0x2A1B >, free_read_blob_handler< &rd_blob >, free_write_blob_handler< &wr_blob >, indicate, write_without_response >,
        characteristic< characteristic_uuid16< 0x2A1C >, fixed_uint16_value< 0x1234 > >
    >,
    service< service_uuid16< 0x1810 >, include_service< service_uuid16< 0x180F > > >,
    service< service_uuid16< 0x1811 >, attribute_handle< 0x200 >, may_require_encryption,
        characteristic< characteristic_uuid16< 0x2A1D >, bind_characteristic_value< decltype( v4 ), &v4 >, only_write_without_response, no_read_access >,
        characteristic< characteristic_uuid16< 0x2A1E >, cstring_value< cname0 > >
    >
>;
}
template < class S > struct conn_t : S::template channel_data_t< details::link_state > {};
int main() {
    cfg::server_t s; conn_t< cfg::server_t > c;
    for ( std::size_t i = 0; ; ++i ) { auto h = cfg::server_t::handle_mapping::handle_by_index( i ); if ( !h ) break; printf( "%zu:%04x:%04x ", i, h, cfg::server_t::attribute_at( i ).uuid ); } printf( "\n" );
    std::uint8_t out[ 65 ]; std::size_t os = sizeof out; const std::uint8_t in[] = { 0x04, 0x01, 0x00, 0xff, 0xff };
    s.l2cap_input( in, sizeof in, out, os, c ); for ( std::size_t i = 0; i != os; ++i ) printf( "%02x ", out[i] ); printf( "\n" );
    std::uint8_t adv[ 31 ]; auto n = s.advertising_data( adv, 31 ); for ( std::size_t i = 0; i != n; ++i ) printf( "%02x ", adv[i] ); printf( "\n" );
}
