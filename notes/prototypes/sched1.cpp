#include "prelude.hpp"
#include <thread>
#include <mutex>
#include <condition_variable>
#include <atomic>
#include <rapidcheck.h>
// --- baton scheduler: two worker threads, only the one holding the baton runs
struct sched_t {
    std::mutex m; std::condition_variable cv; int turn = -1; bool done[2] = { false, false };
    const std::vector< std::uint8_t >* choices = nullptr; std::size_t pos = 0; unsigned switches = 0;
    static thread_local int me;
    void start( const std::vector< std::uint8_t >& c ) { choices = &c; pos = 0; done[0] = done[1] = false; switches = 0; turn = next_choice( 0 ); }
    int next_choice( int current ) { int want = ( choices && pos < choices->size() ) ? ( (*choices)[ pos++ ] & 1 ) : current; if ( done[ want ] ) want = 1 - want; return want; }
    void wait_turn() { std::unique_lock< std::mutex > l( m ); cv.wait( l, [&]{ return turn == me; } ); }
    void yield() { std::unique_lock< std::mutex > l( m ); int n = next_choice( me ); if ( n != me ) { ++switches; turn = n; cv.notify_all(); cv.wait( l, [&]{ return turn == me; } ); } }
    void finish() { std::unique_lock< std::mutex > l( m ); done[ me ] = true; if ( !done[ 1 - me ] ) { turn = 1 - me; } else turn = -2; cv.notify_all(); }
} sched;
thread_local int sched_t::me = -1;
struct verif_index { int v; verif_index( int x = 0 ) : v( x ) {} int load() { sched.yield(); return v; } void store( int x ) { sched.yield(); v = x; } };
#define BLUETOE_VERIF_RING_INDEX verif_index
#include "hook/bluetoe/ring.hpp"
struct elem { int a = 0, b = 0; elem() {} elem( int x ) : a( x ), b( x ) {} elem& operator=( const elem& o ) { a = o.a; sched.yield(); b = o.b; return *this; } };
int main() {
    unsigned long total_switch = 0, cases = 0;
    bool ok = rc::check( "ring is a lossless FIFO under any interleaving", [&]( const std::vector< std::uint8_t >& schedule, std::uint8_t np, std::uint8_t nc ) {
        const int pushes = 1 + np % 4, pops = 1 + nc % 4;
        bluetoe::details::ring< 2, elem > r; std::vector< int > pushed, popped; bool torn = false;
        sched.start( schedule );
        std::thread prod( [&]{ sched_t::me = 0; sched.wait_turn(); for ( int i = 1; i <= pushes; ++i ) if ( r.try_push( elem( i ) ) ) pushed.push_back( i ); sched.finish(); } );
        std::thread cons( [&]{ sched_t::me = 1; sched.wait_turn(); for ( int i = 0; i != pops; ++i ) { elem e; if ( r.try_pop( e ) ) { if ( e.a != e.b ) torn = true; popped.push_back( e.a ); } } sched.finish(); } );
        prod.join(); cons.join(); total_switch += sched.switches; ++cases;
        RC_ASSERT( !torn ); RC_ASSERT( popped.size() <= pushed.size() );
        RC_ASSERT( std::equal( popped.begin(), popped.end(), pushed.begin() ) );
    } );
    printf( "cases %lu avg switches %.1f\n", cases, cases ? double( total_switch ) / cases : 0.0 );
    return ok ? 0 : 1;
}
