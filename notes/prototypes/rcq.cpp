#include "prelude.hpp"
#include <rapidcheck.h>
#include <bluetoe/notification_queue.hpp>
#include <set>
struct empty {};
struct Op { int kind; int idx; };
namespace rc { template<> struct Arbitrary<Op> { static Gen<Op> arbitrary() { return gen::build<Op>( gen::set( &Op::kind, gen::inRange( 0, 4 ) ), gen::set( &Op::idx, gen::inRange( 0, 4 ) ) ); } }; }
void showValue( const Op& o, std::ostream& os ) { os << "{" << o.kind << "," << o.idx << "}"; }
int main() {
    using Q = bluetoe::notification_queue< std::tuple< std::integral_constant< int, 1 >, std::integral_constant< int, 3 > >, empty >;
    bool ok = rc::check( "queue is a set", []( const std::vector< Op >& ops ) {
        Q q; std::set< std::pair< int, int > > pending; bool outstanding = false;
        for ( auto& o : ops ) {
            if ( o.kind == 0 ) { bool r = q.queue_notification( o.idx ); bool exp = pending.insert( { o.idx, 1 } ).second; RC_ASSERT( r == exp ); }
            else if ( o.kind == 1 ) { bool r = q.queue_indication( o.idx ); bool exp = pending.insert( { o.idx, 2 } ).second; RC_ASSERT( r == exp ); }
            else if ( o.kind == 2 ) { auto r = q.dequeue_indication_or_confirmation(); if ( r.first == bluetoe::details::notification_queue_entry_type::empty ) { for ( auto& p : pending ) RC_ASSERT( p.second == 2 && outstanding ); } else { int k = r.first == bluetoe::details::notification_queue_entry_type::notification ? 1 : 2; RC_ASSERT( pending.erase( { (int)r.second, k } ) == 1u ); if ( k == 2 ) { RC_ASSERT( !outstanding ); outstanding = true; } } }
            else { q.indication_confirmed(); outstanding = false; }
        }
    } );
    return ok ? 0 : 1;
}
