#include "prelude.hpp"
#include <rapidcheck.h>
#include <bluetoe/meta_tools.hpp>
#include <bluetoe/delta_time.hpp>
#include <bluetoe/channel_map.hpp>
#include <bluetoe/peripheral_latency.hpp>
namespace ll = bluetoe::link_layer;
using PL = ll::peripheral_latency;
struct toy_radio { std::pair< bool, ll::delta_time > answer; std::pair< bool, ll::delta_time > disarm_connection_event() { return answer; } };
struct Op { int kind; int latency; int flags; int inst; int disarm_ok; int elapsed_events; };
namespace rc { template<> struct Arbitrary<Op> { static Gen<Op> arbitrary() { return gen::build<Op>(
   gen::set( &Op::kind, gen::weightedElement< int >( { {6,0},{2,1},{3,2} } ) ), gen::set( &Op::latency, gen::oneOf( gen::inRange( 0, 6 ), gen::inRange( 0, 500 ) ) ),
   gen::set( &Op::flags, gen::inRange( 0, 64 ) ), gen::set( &Op::inst, gen::inRange( -1, 12 ) ), gen::set( &Op::disarm_ok, gen::inRange( 0, 2 ) ), gen::set( &Op::elapsed_events, gen::inRange( 0, 8 ) ) ); } }; }
void showValue( const Op& o, std::ostream& os ) { os << "{k" << o.kind << " l" << o.latency << " f" << o.flags << " i" << o.inst << " d" << o.disarm_ok << " e" << o.elapsed_events << "}"; }
template < class State, bool pend, bool unack, bool rxne, bool txne, bool md, bool always >
bool run( const std::vector< Op >& ops ) {
    State st; st.reset_connection_state(); const ll::delta_time interval( 30000 );
    unsigned counter = 0, chan = 0; unsigned long tsl = 0; int last_n = 1; bool can_pull = false;
    for ( auto& o : ops ) {
        if ( o.kind == 0 ) {
            ll::connection_event_events e; e.unacknowledged_data = o.flags & 1; e.last_received_not_empty = o.flags & 2; e.last_transmitted_not_empty = o.flags & 4; e.last_received_had_more_data = o.flags & 8; e.pending_outgoing_data = o.flags & 16; e.error_occured = o.flags & 32;
            const bool must_listen = ( unack && e.unacknowledged_data ) || ( rxne && e.last_received_not_empty ) || ( txne && e.last_transmitted_not_empty ) || ( md && e.last_received_had_more_data ) || ( pend && e.pending_outgoing_data ) || always || e.error_occured;
            const bool has_inst = o.inst >= 0; const std::uint16_t inst = std::uint16_t( counter + o.inst );
            st.plan_next_connection_event( std::uint16_t( o.latency ), e, interval, { has_inst, inst } );
            const unsigned n = std::uint16_t( st.connection_event_counter() - counter );
            RC_ASSERT( n >= 1u ); RC_ASSERT( n <= unsigned( o.latency ) + 1 );
            if ( must_listen ) RC_ASSERT( n == 1u );
            if ( has_inst && o.inst > 0 ) RC_ASSERT( n <= unsigned( o.inst ) );
            RC_ASSERT( st.current_channel_index() == ( chan + n ) % 37 );
            RC_ASSERT( st.time_since_last_event().usec() == n * 30000u );
            counter = st.connection_event_counter(); chan = st.current_channel_index(); tsl = n * 30000ul; last_n = n; can_pull = true;
        } else if ( o.kind == 1 ) {
            st.plan_next_connection_event_after_timeout( interval );
            RC_ASSERT( std::uint16_t( st.connection_event_counter() - counter ) == 1u ); RC_ASSERT( st.current_channel_index() == ( chan + 1 ) % 37 );
            RC_ASSERT( st.time_since_last_event().usec() == tsl + 30000u );
            counter = st.connection_event_counter(); chan = st.current_channel_index(); tsl += 30000; can_pull = false; // conservative: no assertion on pull after timeout
        } else {
            toy_radio r; const unsigned long now = std::min< unsigned long >( o.elapsed_events * 30000ul + 1234, tsl ? tsl - 1 : 0 ); r.answer = { o.disarm_ok != 0, ll::delta_time( now ) };
            const bool moved = st.reschedule_on_pending_data( r, interval );
            if ( !pend ) RC_ASSERT( !moved );
            if ( moved ) {
                const unsigned back = std::uint16_t( counter - st.connection_event_counter() );
                RC_ASSERT( back < unsigned( last_n ) || !can_pull );
                RC_ASSERT( st.current_channel_index() == ( chan + 37 * 20 - back ) % 37 );
                RC_ASSERT( st.time_since_last_event().usec() == tsl - back * 30000ul );
                RC_ASSERT( st.time_since_last_event().usec() >= now );      // never before "now"
                counter = st.connection_event_counter(); chan = st.current_channel_index(); tsl -= back * 30000ul; last_n -= back;
            }
        }
    }
    return true;
}
int main() {
    using def = ll::details::peripheral_latency_state< ll::periperal_latency_default_configuration >;
    using strict = ll::details::peripheral_latency_state< ll::peripheral_latency_strict >;
    using ign = ll::details::peripheral_latency_state< ll::peripheral_latency_ignored >;
    bool ok = rc::check( "default cfg", []( const std::vector< Op >& ops ) { run< def, true, true, true, true, true, false >( ops ); } );
    ok = rc::check( "strict cfg", []( const std::vector< Op >& ops ) { run< strict, true, false, false, false, true, false >( ops ); } ) && ok;
    ok = rc::check( "ignored cfg", []( const std::vector< Op >& ops ) { run< ign, false, false, false, false, false, true >( ops ); } ) && ok;
    return ok ? 0 : 1;
}
