#include "prelude.hpp"
#include <bluetoe/ll_data_pdu_buffer.hpp>
#include <bluetoe/ll_l2cap_sdu_buffer.hpp>
namespace ll = bluetoe::link_layer;
template < std::size_t Tx, std::size_t Rx >
struct radio : ll::ll_data_pdu_buffer< Tx, Rx, radio< Tx, Rx > > {
    struct lock_guard { lock_guard(){} ~lock_guard(){} }; ~radio() { asm volatile("" ::: "memory"); }
    void increment_receive_packet_counter() {} void increment_transmit_packet_counter() {}
    using base = ll::ll_data_pdu_buffer< Tx, Rx, radio< Tx, Rx > >;
    using base::allocate_receive_buffer; using base::received; using base::next_transmit;
};
template < std::size_t MTU >
struct sdu : ll::ll_l2cap_sdu_buffer< radio< 200, 200 >, sdu< MTU >, MTU > {
    void pdu_receive_data_callback( const ll::write_buffer& ) {}
    bool sn = false;
    void feed( std::uint8_t llid, std::vector<std::uint8_t> body ) {
        auto b = this->allocate_receive_buffer(); assert( b.size );
        b.buffer[0] = llid | ( sn ? 8 : 0 ); b.buffer[1] = body.size(); std::copy( body.begin(), body.end(), b.buffer + 2 ); sn = !sn;
        this->received( b );
    }
};
int main( int argc, char** ) {
    auto* s = new sdu< 30 >;
    s->max_rx_size( 100 );
    if ( argc == 1 ) {
        // start fragment announcing 30 bytes, carrying 10
        std::vector<std::uint8_t> st = { 30, 0, 4, 0 }; st.resize( 14, 0xaa );
        s->feed( 2, st ); auto r = s->next_ll_l2cap_received(); printf( "after start: %zu\n", r.size );
        // over-long continuation: 60 bytes
        s->feed( 1, std::vector<std::uint8_t>( 60, 0xbb ) ); r = s->next_ll_l2cap_received(); printf( "after cont: %zu\n", r.size );
    } else {
        for ( int i = 0; i != 4; ++i ) { std::vector<std::uint8_t> st = { 30, 0, 4, 0 }; st.resize( 14, 0xaa ); s->feed( 2, st ); auto r = s->next_ll_l2cap_received(); printf( "start %d: %zu\n", i, r.size ); }
    }
    delete s;
}
