#include "prelude.hpp"
#include <bluetoe/server.hpp>
#include <bluetoe/ll_data_pdu_buffer.hpp>
#include <bluetoe/link_layer.hpp>
#include <string>
#include <memory>
#include <rapidcheck.h>
using namespace bluetoe;
namespace ll = bluetoe::link_layer;

struct sched_adv { unsigned channel; std::vector<std::uint8_t> pdu; ll::delta_time when; ll::read_buffer rx; };
struct sched_evt { unsigned channel; ll::delta_time start, end, interval; };

template < std::size_t Tx, std::size_t Rx, typename CB >
class verif_radio : public ll::ll_data_pdu_buffer< Tx, Rx, verif_radio< Tx, Rx, CB > >
{
public:
    using buf = ll::ll_data_pdu_buffer< Tx, Rx, verif_radio< Tx, Rx, CB > >;
    std::vector<sched_adv> advs; std::vector<sched_evt> evts;
    bool adv_pending = false, evt_pending = false; int wake = 0; bool cancel_req = false;
    std::uint32_t aa = 0, crc = 0; unsigned rx_cnt = 0, tx_cnt = 0;
    std::pair<bool, ll::delta_time> disarm_answer{ false, ll::delta_time() };

    void schedule_advertisment( unsigned channel, const ll::write_buffer& adv, const ll::write_buffer&, ll::delta_time when, const ll::read_buffer& rx )
    { advs.push_back( { channel, std::vector<std::uint8_t>( adv.buffer, adv.buffer + adv.size ), when, rx } ); adv_pending = true; evt_pending = false; }
    ll::delta_time schedule_connection_event( unsigned channel, ll::delta_time s, ll::delta_time e, ll::delta_time i )
    { evts.push_back( { channel, s, e, i } ); evt_pending = true; adv_pending = false; return ll::delta_time(); }
    std::pair< bool, ll::delta_time > disarm_connection_event() { if ( disarm_answer.first ) { evts.pop_back(); evt_pending = false; } return disarm_answer; }
    bool schedule_synchronized_user_timer( ll::delta_time, ll::delta_time ) { return false; }
    bool cancel_synchronized_user_timer() { return false; }
    void set_access_address_and_crc_init( std::uint32_t a, std::uint32_t c ) { aa = a; crc = c; }
    std::uint32_t static_random_address_seed() const { return 0x47110815; }
    void run() {}
    void wake_up() { ++wake; }
    void request_event_cancelation() { cancel_req = true; }
    void radio_set_phy( ll::phy_ll_encoding::phy_ll_encoding_t, ll::phy_ll_encoding::phy_ll_encoding_t ) {}
    void increment_receive_packet_counter() { ++rx_cnt; }
    void increment_transmit_packet_counter() { ++tx_cnt; }
    struct lock_guard { lock_guard(){} ~lock_guard(){} };
    static constexpr std::size_t radio_maximum_white_list_entries = 0;
    static constexpr bool hardware_supports_encryption = true;
    static constexpr bool hardware_supports_lesc_pairing = true;
    static constexpr bool hardware_supports_legacy_pairing = true;
    // toy toolbox
    using u128 = bluetoe::details::uint128_t;
    static u128 mix( const u128& a, const u128& b, std::uint8_t salt ) { u128 r; for ( int i = 0; i != 16; ++i ) r[i] = std::uint8_t( a[i] * 31 + b[(i+5)%16] * 17 + salt + i ); return r; }
    u128 create_srand() { return u128{{1,2,3}}; }
    bluetoe::details::longterm_key_t create_long_term_key() { return { u128{{9,9}}, 0x1122334455667788ull, 0x4242 }; }
    u128 c1( const u128& k, const u128& r, const u128& p1, const u128& p2 ) const { return mix( mix( k, r, 1 ), mix( p1, p2, 2 ), 3 ); }
    u128 s1( const u128& k, const u128& a, const u128& b ) { return mix( k, mix( a, b, 4 ), 5 ); }
    bool is_valid_public_key( const std::uint8_t* k ) const { return k[0] != 0xff; }
    std::pair< bluetoe::details::ecdh_public_key_t, bluetoe::details::ecdh_private_key_t > generate_keys() { return {}; }
    u128 select_random_nonce() { return u128{{7}}; }
    bluetoe::details::ecdh_shared_secret_t p256( const std::uint8_t*, const std::uint8_t* ) { return {}; }
    u128 f4( const std::uint8_t*, const std::uint8_t*, const u128& k, std::uint8_t ) { return k; }
    std::pair< u128, u128 > f5( const bluetoe::details::ecdh_shared_secret_t, const u128& a, const u128& b, const ll::device_address&, const ll::device_address& ) { return { a, b }; }
    u128 f6( const u128& k, const u128&, const u128&, const u128&, const bluetoe::details::io_capabilities_t&, const ll::device_address&, const ll::device_address& ) { return k; }
    std::uint32_t g2( const std::uint8_t*, const std::uint8_t*, const u128&, const u128& ) { return 123456; }
    u128 create_passkey() { return u128{{0x40, 0xe2, 0x01}}; }
    std::pair< std::uint64_t, std::uint32_t > setup_encryption( u128, std::uint64_t, std::uint32_t ) { return { 0x1111, 0x2222 }; }
    bool rx_enc = false, tx_enc = false;
    void start_receive_encrypted() { rx_enc = true; } void start_transmit_encrypted() { tx_enc = true; }
    void stop_receive_encrypted() { rx_enc = false; } void stop_transmit_encrypted() { tx_enc = false; }
    static constexpr bool hardware_supports_2mbit = true;
    static constexpr bool hardware_supports_synchronized_user_timer = false;
    static constexpr unsigned connection_event_setup_time_us = 100u;
    // harness access to protected radio-side interface
    using buf::allocate_receive_buffer; using buf::received; using buf::next_transmit; ll::write_buffer mic_failure( ll::read_buffer b ) { return this->acknowledge( b ); }
};

std::uint8_t v1 = 42;
using srv = server< service< service_uuid16<0x1815>, characteristic< characteristic_uuid16<0x2A01>, bind_characteristic_value<decltype(v1), &v1>, notify, requires_encryption > > >;

static std::vector<std::string> cblog;
struct cb_t {

    template < class C > void ll_connection_requested( const ll::connection_details&, const ll::connection_addresses&, C& ) { cblog.push_back("requested"); }
    template < class C > void ll_connection_established( const ll::connection_details&, const ll::connection_addresses&, C& ) { cblog.push_back("established"); }
    template < class C > void ll_connection_closed( std::uint8_t r, C& ) { cblog.push_back("closed " + std::to_string(r)); }
    template < class C > void ll_connection_changed( const ll::connection_details&, C& ) { cblog.push_back("changed"); }
    template < class C > void ll_connection_attempt_timeout( C& ) { cblog.push_back("attempt_timeout"); }
    template < class C > void ll_version( std::uint8_t, std::uint16_t, std::uint16_t, C& ) { cblog.push_back("version"); }
    template < class C > void ll_rejected( std::uint8_t, C& ) { cblog.push_back("rejected"); }
    template < class C > void ll_unknown( std::uint8_t, C& ) { cblog.push_back("unknown"); }
    template < class C > void ll_remote_features( std::uint8_t*, C& ) { cblog.push_back("features"); }
    template < class C > void ll_phy_updated( ll::phy_ll_encoding::phy_ll_encoding_t, ll::phy_ll_encoding::phy_ll_encoding_t, C& ) { cblog.push_back("phy"); }
} cbs;

struct dev : ll::link_layer< srv, verif_radio, ll::connection_callbacks< cb_t, cbs >, ll::static_address< 0xc0, 0x0f, 0x15, 0x08, 0x11, 0x47 > > {};


// ---- reference CSA#1
struct csa1 { std::uint8_t map[5]; unsigned hop; unsigned used[37]; unsigned n = 0;
  void set( const std::uint8_t* m, unsigned h ) { std::copy( m, m + 5, map ); hop = h; n = 0; for ( unsigned c = 0; c != 37; ++c ) if ( map[ c / 8 ] & ( 1 << ( c % 8 ) ) ) used[ n++ ] = c; }
  unsigned channel( unsigned counter ) const { unsigned un = ( ( counter + 1 ) * hop ) % 37; if ( map[ un / 8 ] & ( 1 << ( un % 8 ) ) ) return un; return used[ un % n ]; } };
struct Step { int kind; int rel; int lat; int interval; int timeout; int winsize; int winoff; };
namespace rc { template<> struct Arbitrary<Step> { static Gen<Step> arbitrary() { return gen::build<Step>(
    gen::set( &Step::kind, gen::weightedElement< int >( { {10,0},{5,1},{2,2},{1,3} } ) ), gen::set( &Step::rel, gen::inRange( 1, 9 ) ), gen::set( &Step::lat, gen::inRange( 0, 4 ) ),
    gen::set( &Step::interval, gen::inRange( 6, 80 ) ), gen::set( &Step::timeout, gen::inRange( 100, 400 ) ), gen::set( &Step::winsize, gen::inRange( 1, 5 ) ), gen::set( &Step::winoff, gen::inRange( 0, 6 ) ) ); } }; }
void showValue( const Step& o, std::ostream& os ) { os << "{k" << o.kind << " rel" << o.rel << " lat" << o.lat << " I" << o.interval << " to" << o.timeout << " ws" << o.winsize << " wo" << o.winoff << "}"; }
int main() {
    bool ok = rc::check( "windows, counters and channels follow the connection parameters", []( const std::vector< Step >& steps ) {
        cblog.clear();
        auto dp = std::make_unique< dev >(); dev& d = *dp; d.run();
        // connect: winsize 3, winoffset 11, interval 24 (30ms), latency 0, timeout 72 (720ms), map all, hop 10, sca 5 (50ppm); local default 500ppm
        static const std::uint8_t creq[] = { 0xc5, 0x22, 0x3c,0x1c,0x62,0x92,0xf0,0x48, 0x47,0x11,0x08,0x15,0x0f,0xc0, 0x5a,0xb3,0x9a,0xaf, 0x08,0x81,0xf6, 0x03, 0x0b,0x00, 0x18,0x00, 0x00,0x00, 0x48,0x00, 0xff,0xff,0xff,0xff,0x1f, 0xaa };
        auto rx = d.advs.back().rx; std::copy( std::begin(creq), std::end(creq), rx.buffer ); rx.size = sizeof creq; d.adv_received( rx );
        const unsigned ppm = 50 + 500;
        csa1 csa; static const std::uint8_t allmap[5] = { 0xff,0xff,0xff,0xff,0x1f }; csa.set( allmap, 10 );
        unsigned long interval = 30000, timeout = 720000; unsigned latency = 0;
        unsigned model_counter = 0;              // counter of the event that is scheduled next
        unsigned long since_anchor = 0;          // ideal distance of the scheduled event from the last anchor
        bool first = true; bool sn = false, nesn = false;
        // pending connection update
        bool upd = false; unsigned upd_inst = 0; unsigned long upd_interval = 0, upd_timeout = 0, upd_winsize = 0, upd_winoff = 0; unsigned upd_lat = 0;
        bool upd_window = false;
        auto check_event = [&]() {
            RC_ASSERT( d.evt_pending );
            const auto& e = d.evts.back();
            const unsigned counter = d.connection_event_counter();
            // how many events did the peripheral advance?
            unsigned n = std::uint16_t( counter - model_counter ) + 1;            // model_counter is the previous candidate
            (void)n;
            RC_ASSERT( e.channel == csa.channel( counter ) );
            const unsigned long s = e.start.usec(), en = e.end.usec();
            if ( first ) { RC_ASSERT( s <= 15000 - 15000ul * ppm / 1000000 + 1 ); RC_ASSERT( en >= 18750 + 18750ul * ppm / 1000000 - 1 ); }
            return counter;
        };
        unsigned counter = check_event(); RC_ASSERT( counter == 0u );
        unsigned long ideal = 0; // ideal distance from last anchor to the scheduled event (multiple of interval), 0 while the first event is pending
        unsigned missed_since_anchor = 0;
        for ( auto& st : steps ) {
            if ( !d.evt_pending ) break;       // disconnected (supervision timeout etc.)
            const unsigned before = d.connection_event_counter();
            const auto ev = d.evts.back();
            if ( st.kind == 1 ) {               // missed event
                d.timeout();
                if ( !d.evt_pending ) {        // supervision or connection attempt timeout: only legal if enough time passed
                    if ( first ) RC_ASSERT( missed_since_anchor + 1 >= 6u ); else RC_ASSERT( ideal >= timeout || ideal + interval >= timeout );
                    break; }
                ++missed_since_anchor;
                RC_ASSERT( std::uint16_t( d.connection_event_counter() - before ) == 1u );
                if ( upd && std::uint16_t( d.connection_event_counter() ) == upd_inst ) { /* update applies at this event */ }
            } else {
                // central transmits inside the window: event happens, anchor moves
                auto b = d.allocate_receive_buffer(); RC_ASSERT( b.size != 0u );
                std::vector< std::uint8_t > pdu{ 0x01, 0x00 };
                if ( st.kind == 2 && !upd ) {   // connection update indication
                    const std::uint16_t inst = std::uint16_t( before + 1 + st.rel );
                    pdu = { 0x03, 12, 0x00, std::uint8_t( st.winsize ), std::uint8_t( st.winoff ), 0, std::uint8_t( st.interval ), 0, std::uint8_t( st.lat ), 0, std::uint8_t( st.timeout ), std::uint8_t( st.timeout >> 8 ), std::uint8_t( inst ), std::uint8_t( inst >> 8 ) };
                    upd = true; upd_inst = inst; upd_interval = st.interval * 1250ul; upd_timeout = st.timeout * 10000ul; upd_winsize = st.winsize * 1250ul; upd_winoff = st.winoff * 1250ul; upd_lat = st.lat;
                    if ( !( upd_timeout > ( 1 + upd_lat ) * upd_interval * 2 ) || upd_winoff > upd_interval || upd_winsize > upd_interval ) { upd = false; pdu = { 0x01, 0x00 }; }
                }
                std::copy( pdu.begin(), pdu.end(), b.buffer ); b.buffer[ 0 ] = ( b.buffer[ 0 ] & 3 ) | ( sn ? 8 : 0 ) | ( nesn ? 4 : 0 );
                auto t = d.received( b );
                if ( bool( t.buffer[ 0 ] & 4 ) != sn ) sn = !sn; if ( bool( t.buffer[ 0 ] & 8 ) == nesn ) nesn = !nesn;
                ll::connection_event_events e; e.last_received_not_empty = pdu[ 1 ] != 0; e.last_transmitted_not_empty = t.buffer[ 1 ] != 0;
                d.end_event( e );
                first = false; ideal = 0; missed_since_anchor = 0;
                if ( !d.evt_pending ) break;
            }
            // ---- check the newly scheduled event
            const unsigned now_counter = d.connection_event_counter();
            const unsigned n = std::uint16_t( now_counter - before );
            RC_ASSERT( n >= 1u ); RC_ASSERT( n <= latency + 1 );
            bool applying = false;
            if ( upd ) {
                RC_ASSERT( std::uint16_t( upd_inst - before ) == 0 || std::uint16_t( upd_inst - now_counter ) < 0x8000 );    // the instant is not skipped
                if ( now_counter == upd_inst ) applying = true;
            }
            const auto& e = d.evts.back();
            RC_ASSERT( e.channel == csa.channel( now_counter ) );
            const unsigned long s = e.start.usec(), en = e.end.usec();
            if ( !first ) {
                ideal += n * interval;     // with the OLD interval up to the instant
                unsigned long lo = ideal, hi = ideal;
                if ( applying ) { lo = ideal + upd_winoff; hi = lo + upd_winsize; }
                if ( upd_window && missed_since_anchor ) { /* still waiting for the first event after an update: window keeps offset */ lo += 0; }
                const unsigned long wlo = lo * ppm / 1000000, whi = hi * ppm / 1000000;
                if ( !upd_window ) { RC_ASSERT( s <= lo - wlo + 1 ); RC_ASSERT( en + 1 >= hi + whi ); }
                RC_CLASSIFY( applying, "update applied" ); RC_CLASSIFY( missed_since_anchor > 0, "after missed events" );
                if ( applying ) { interval = upd_interval; timeout = upd_timeout; latency = upd_lat; upd = false; upd_window = true; }
                else if ( st.kind != 1 ) upd_window = false;
            }
            model_counter = now_counter;
        }
    } );
    return ok ? 0 : 1;
}
