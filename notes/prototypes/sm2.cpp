#include "prelude.hpp"
#include <memory>
#include <rapidcheck.h>
#include <bluetoe/link_state.hpp>
#include <bluetoe/security_manager.hpp>
#include <bluetoe/address.hpp>
using namespace bluetoe;
using u128 = details::uint128_t;
static u128 mix( const u128& a, const u128& b, std::uint8_t salt ) { u128 r; for ( int i = 0; i != 16; ++i ) r[i] = std::uint8_t( a[i] * 31 + b[(i+5)%16] * 17 + salt + i ); return r; }
static unsigned srand_ctr = 0;
struct toy {
    link_layer::device_address local_address() const { return link_layer::public_device_address( { 1,2,3,4,5,6 } ); }
    u128 create_srand() { u128 r{{ std::uint8_t( ++srand_ctr ), 0x5a }}; return r; }
    details::longterm_key_t create_long_term_key() { return { u128{{9,9}}, 0x1122334455667788ull, 0x4242 }; }
    u128 c1( const u128& k, const u128& r, const u128& p1, const u128& p2 ) const { return mix( mix( k, r, 1 ), mix( p1, p2, 2 ), 3 ); }
    u128 s1( const u128& k, const u128& a, const u128& b ) { return mix( k, mix( a, b, 4 ), 5 ); }
    bool is_valid_public_key( const std::uint8_t* k ) const { return k[0] != 0xff; }
    std::pair< details::ecdh_public_key_t, details::ecdh_private_key_t > generate_keys() { details::ecdh_public_key_t p{}; p[0] = 0x42; return { p, {} }; }
    u128 select_random_nonce() { return u128{{7, std::uint8_t( ++srand_ctr )}}; }
    details::ecdh_shared_secret_t p256( const std::uint8_t*, const std::uint8_t* ) { return {}; }
    u128 f4( const std::uint8_t* u, const std::uint8_t* v, const u128& k, std::uint8_t z ) { u128 a{}, b{}; std::copy( u, u+16, a.begin() ); std::copy( v, v+16, b.begin() ); return mix( mix( a, b, z ), k, 6 ); }
    std::pair< u128, u128 > f5( const details::ecdh_shared_secret_t, const u128& a, const u128& b, const link_layer::device_address&, const link_layer::device_address& ) { return { mix( a, b, 7 ), mix( b, a, 8 ) }; }
    u128 f6( const u128& k, const u128& n1, const u128& n2, const u128&, const details::io_capabilities_t& io, const link_layer::device_address&, const link_layer::device_address& ) { u128 x = mix( n1, n2, io[0] + io[2] ); return mix( k, x, 9 ); }
    std::uint32_t g2( const std::uint8_t*, const std::uint8_t*, const u128&, const u128& ) { return 123456; }
    u128 create_passkey() { return u128{{0x40, 0xe2, 0x01}}; }
};
struct io_t { pairing_yes_no_response* pending = nullptr; void sm_pairing_yes_no( pairing_yes_no_response& r ) { pending = &r; } void sm_pairing_numeric_output( int ) {} } io;
template < class Manager, typename ... Options >
struct sm_t : Manager::template impl< sm_t< Manager, Options... >, Options... >, toy {
    using manager_type = typename Manager::template impl< toy, Options... >;
    using connection_data_t = typename manager_type::template channel_data_t< details::link_state >;
    connection_data_t con = connection_data_t();
    sm_t() { con.remote_connection_created( link_layer::random_device_address( { 9,9,9,9,9,0xc9 } ) ); }
    std::vector< std::uint8_t > in( std::vector< std::uint8_t > pdu ) { std::unique_ptr< std::uint8_t[] > ib( new std::uint8_t[ pdu.size() ] ); std::copy( pdu.begin(), pdu.end(), ib.get() ); std::uint8_t out[ 65 ]; std::size_t n = 65; this->l2cap_input( ib.get(), pdu.size(), out, n, con ); return { out, out + n }; }
    std::vector< std::uint8_t > out() { std::uint8_t o[ 65 ]; std::size_t n = 65; this->l2cap_output( o, n, con ); return { o, o + n }; }
};
struct Step { int kind; int variant; };  // kind: 0 correct next step, 1 random other opcode, 2 correct opcode wrong length, 3 wrong value, 4 poll output, 5 user yes, 6 user no, 7 probe key
namespace rc { template<> struct Arbitrary<Step> { static Gen<Step> arbitrary() { return gen::build<Step>( gen::set( &Step::kind, gen::weightedElement< int >( { {12,0},{2,1},{1,2},{2,3},{4,4},{2,5},{1,6},{3,7} } ) ), gen::set( &Step::variant, gen::inRange( 0, 16 ) ) ); } }; }
void showValue( const Step& o, std::ostream& os ) { os << "{k" << o.kind << " v" << o.variant << "}"; }
int main() {
    bool ok = rc::check( "LESC numeric comparison / just works on the combined manager", []( const std::vector< Step >& steps, bool remote_yes_no ) {
        io.pending = nullptr;
        sm_t< security_manager, pairing_yes_no< io_t, io >, pairing_numeric_output< io_t, io > > s; toy t;
        enum { idle, requested, keys, confirm_sent, random_done, done } ref = idle; bool numeric = false; bool user_answered = false, user_yes = false; bool ea_ok_received = false;
        u128 na{}, nb{}; details::ecdh_public_key_t pka{}; pka[0] = 0x11; details::ecdh_public_key_t pkb{}; details::io_capabilities_t remote_io{{ std::uint8_t( remote_yes_no ? 1 : 3 ), 0, 0x08 }};
        bool eb_seen = false;
        auto expect_failed = [&]( const std::vector< std::uint8_t >& r ) { RC_ASSERT( r.size() == 2u ); RC_ASSERT( r[ 0 ] == 0x05 ); ref = idle; user_answered = false; ea_ok_received = false; };
        for ( auto& st : steps ) {
            if ( st.kind == 4 ) {
                auto r = s.out();
                if ( r.empty() ) continue;
                if ( r[ 0 ] == 0x03 ) { RC_ASSERT( ref == keys ); ref = confirm_sent; }
                else if ( r[ 0 ] == 0x0d ) { eb_seen = true; RC_ASSERT( ea_ok_received ); ref = done; }      // peripheral's DHKey check only after a verified Ea
                else if ( r[ 0 ] == 0x05 ) { ref = idle; user_answered = false; ea_ok_received = false; }
                else RC_ASSERT( !"unexpected output" );
                continue;
            }
            if ( st.kind == 5 || st.kind == 6 ) { if ( io.pending && !user_answered && ref == random_done && numeric ) { user_answered = true; user_yes = st.kind == 5; io.pending->yes_no_response( user_yes ); } continue; }
            if ( st.kind == 7 ) { auto k = s.con.find_key( 0, 0 ); RC_ASSERT( k.first == ( ref == done ) ); continue; }
            // PDUs
            std::vector< std::uint8_t > pdu; bool correct = st.kind == 0 || ( st.kind == 3 && ref != random_done );
            switch ( ref ) {
                case idle:      pdu = { 0x01, remote_io[ 0 ], 0x00, 0x08, 0x10, 0x00, 0x00 }; break;
                case requested: pdu.assign( 65, 0x11 ); pdu[ 0 ] = 0x0c; break;
                case keys:      correct = false; pdu = { 0x04 }; pdu.resize( 17, 0x22 ); break;           // confirm not polled yet: random is out of order
                case confirm_sent: pdu = { 0x04 }; pdu.resize( 17, 0x22 ); break;
                case random_done: { pdu = { 0x0d }; u128 mac = t.f5( {}, na, nb, link_layer::device_address(), link_layer::device_address() ).first; u128 ea = t.f6( mac, na, nb, u128{}, remote_io, link_layer::device_address(), link_layer::device_address() ); pdu.insert( pdu.end(), ea.begin(), ea.end() ); } break;
                case done:      correct = false; pdu = { 0x0d }; pdu.resize( 17, 0x33 ); break;
            }
            if ( st.kind == 1 ) { const std::uint8_t expected_op = pdu[ 0 ]; correct = false; pdu[ 0 ] = std::uint8_t( 0x02 + st.variant % 13 ); if ( pdu[ 0 ] == expected_op ) pdu[ 0 ] = 0x0e; }
            if ( st.kind == 2 ) { correct = false; pdu.push_back( 0 ); }
            if ( st.kind == 3 ) { if ( ref == random_done ) { correct = false; pdu[ 5 ] ^= 0x40; } }
            const auto before = ref;
            auto r = s.in( pdu );
            if ( !correct && !( st.kind == 1 && before != idle && pdu[ 0 ] == 0x01 ) ) {
                // everything else than the next step: pairing failed and idle -- except a DHKey check while waiting for the user (silently kept)
                if ( before == random_done && numeric && !user_answered && pdu[ 0 ] == 0x0d && pdu.size() == 17 ) { RC_ASSERT( r.empty() ); continue; }
                expect_failed( r ); continue;
            }
            if ( st.kind == 1 ) { expect_failed( r ); continue; }
            switch ( before ) {
                case idle: RC_ASSERT( r.size() == 7u && r[ 0 ] == 0x02 ); ref = requested; numeric = remote_yes_no; break;
                case requested: RC_ASSERT( r.size() == 65u && r[ 0 ] == 0x0c ); std::copy( r.begin() + 1, r.end(), pkb.begin() ); ref = keys; break;
                case confirm_sent: std::copy( pdu.begin() + 1, pdu.end(), na.begin() ); if ( r.size() == 17 && r[ 0 ] == 0x04 ) { std::copy( r.begin() + 1, r.end(), nb.begin() ); ref = random_done; } else expect_failed( r ); break;
                case random_done:
                    if ( numeric && !user_answered ) { RC_ASSERT( r.empty() ); ea_ok_received = true; }            // kept until the user answers
                    else if ( numeric && !user_yes ) expect_failed( r );
                    else { RC_ASSERT( r.size() == 17u && r[ 0 ] == 0x0d ); ea_ok_received = true; eb_seen = true; ref = done; }
                    break;
                default: break;
            }
            if ( ref == random_done && numeric && user_answered && user_yes && ea_ok_received && false ) {}
        }
    } );
    return ok ? 0 : 1;
}
