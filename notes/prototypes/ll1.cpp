#include "prelude.hpp"
#include <bluetoe/server.hpp>
#include <bluetoe/ll_data_pdu_buffer.hpp>
#include <bluetoe/link_layer.hpp>
#include <string>
using namespace bluetoe;
namespace ll = bluetoe::link_layer;

struct sched_adv { unsigned channel; std::vector<std::uint8_t> pdu; ll::delta_time when; ll::read_buffer rx; };
struct sched_evt { unsigned channel; ll::delta_time start, end, interval; };

template < std::size_t Tx, std::size_t Rx, typename CB >
class verif_radio : public ll::ll_data_pdu_buffer< Tx, Rx, verif_radio< Tx, Rx, CB > >
{
public:
    using buf = ll::ll_data_pdu_buffer< Tx, Rx, verif_radio< Tx, Rx, CB > >;
    std::vector<sched_adv> advs; std::vector<sched_evt> evts;
    bool adv_pending = false, evt_pending = false; int wake = 0; bool cancel_req = false;
    std::uint32_t aa = 0, crc = 0; unsigned rx_cnt = 0, tx_cnt = 0;
    std::pair<bool, ll::delta_time> disarm_answer{ false, ll::delta_time() };

    void schedule_advertisment( unsigned channel, const ll::write_buffer& adv, const ll::write_buffer&, ll::delta_time when, const ll::read_buffer& rx )
    { advs.push_back( { channel, std::vector<std::uint8_t>( adv.buffer, adv.buffer + adv.size ), when, rx } ); adv_pending = true; evt_pending = false; }
    ll::delta_time schedule_connection_event( unsigned channel, ll::delta_time s, ll::delta_time e, ll::delta_time i )
    { evts.push_back( { channel, s, e, i } ); evt_pending = true; adv_pending = false; return ll::delta_time(); }
    std::pair< bool, ll::delta_time > disarm_connection_event() { if ( disarm_answer.first ) { evts.pop_back(); evt_pending = false; } return disarm_answer; }
    bool schedule_synchronized_user_timer( ll::delta_time, ll::delta_time ) { return false; }
    bool cancel_synchronized_user_timer() { return false; }
    void set_access_address_and_crc_init( std::uint32_t a, std::uint32_t c ) { aa = a; crc = c; }
    std::uint32_t static_random_address_seed() const { return 0x47110815; }
    void run() {}
    void wake_up() { ++wake; }
    void request_event_cancelation() { cancel_req = true; }
    void radio_set_phy( ll::phy_ll_encoding::phy_ll_encoding_t, ll::phy_ll_encoding::phy_ll_encoding_t ) {}
    void increment_receive_packet_counter() { ++rx_cnt; }
    void increment_transmit_packet_counter() { ++tx_cnt; }
    struct lock_guard { lock_guard(){} ~lock_guard(){} };
    static constexpr std::size_t radio_maximum_white_list_entries = 0;
    static constexpr bool hardware_supports_encryption = false;
    static constexpr bool hardware_supports_2mbit = true;
    static constexpr bool hardware_supports_synchronized_user_timer = false;
    static constexpr unsigned connection_event_setup_time_us = 100u;
    // harness access to protected radio-side interface
    using buf::allocate_receive_buffer; using buf::received; using buf::next_transmit; ll::write_buffer mic_failure( ll::read_buffer b ) { return this->acknowledge( b ); }
};

std::uint8_t v1 = 42;
using srv = server< service< service_uuid16<0x1815>, characteristic< characteristic_uuid16<0x2A01>, bind_characteristic_value<decltype(v1), &v1>, notify > > >;

static std::vector<std::string> cblog;
struct cb_t {

    template < class C > void ll_connection_requested( const ll::connection_details&, const ll::connection_addresses&, C& ) { cblog.push_back("requested"); }
    template < class C > void ll_connection_established( const ll::connection_details&, const ll::connection_addresses&, C& ) { cblog.push_back("established"); }
    template < class C > void ll_connection_closed( std::uint8_t r, C& ) { cblog.push_back("closed " + std::to_string(r)); }
    template < class C > void ll_connection_changed( const ll::connection_details&, C& ) { cblog.push_back("changed"); }
    template < class C > void ll_connection_attempt_timeout( C& ) { cblog.push_back("attempt_timeout"); }
} cbs;

struct dev : ll::link_layer< srv, verif_radio, ll::connection_callbacks< cb_t, cbs >, ll::static_address< 0xc0, 0x0f, 0x15, 0x08, 0x11, 0x47 > > {};

int main() {
    dev d;
    d.run();
    printf( "adv scheduled: %zu channel %u size %zu\n", d.advs.size(), d.advs.back().channel, d.advs.back().pdu.size() );
    d.adv_timeout(); d.adv_timeout(); d.adv_timeout();
    for ( auto& a : d.advs ) printf( " ch %u when %u\n", a.channel, a.when.usec() );
    static const std::uint8_t creq[] = { 0xc5, 0x22, 0x3c,0x1c,0x62,0x92,0xf0,0x48, 0x47,0x11,0x08,0x15,0x0f,0xc0, 0x5a,0xb3,0x9a,0xaf, 0x08,0x81,0xf6, 0x03, 0x0b,0x00, 0x18,0x00, 0x00,0x00, 0x48,0x00, 0xff,0xff,0xff,0xff,0x1f, 0xaa };
    auto rx = d.advs.back().rx; std::copy( std::begin(creq), std::end(creq), rx.buffer ); rx.size = sizeof creq;
    d.adv_received( rx );
    printf( "evts %zu ch %u start %u end %u\n", d.evts.size(), d.evts.back().channel, d.evts.back().start.usec(), d.evts.back().end.usec() );
    // one connection event: central sends empty PDU
    auto b = d.allocate_receive_buffer(); b.buffer[0] = 0x01; b.buffer[1] = 0; auto t = d.received( b );
    printf( "tx hdr %02x %02x\n", t.buffer[0], t.buffer[1] );
    d.end_event( ll::connection_event_events() );
    printf( "evts %zu ch %u start %u end %u counter %u\n", d.evts.size(), d.evts.back().channel, d.evts.back().start.usec(), d.evts.back().end.usec(), (unsigned)d.connection_event_counter() );
    for ( auto& s : cblog ) printf( " cb %s\n", s.c_str() );
    d.timeout(); d.timeout();
    printf( "evts %zu start %u end %u counter %u\n", d.evts.size(), d.evts.back().start.usec(), d.evts.back().end.usec(), (unsigned)d.connection_event_counter() );
}
