#include "prelude.hpp"
#include <bluetoe/server.hpp>
#include <bluetoe/l2cap_signaling_channel.hpp>
#include <bluetoe/services/csc.hpp>
#include <bluetoe/sensor_location.hpp>
using namespace bluetoe;
static void show( const char* t, const std::uint8_t* p, std::size_t n ) { printf( "%-34s", t ); for ( std::size_t i = 0; i != n; ++i ) printf( " %02x", p[i] ); printf( "  (%zu)\n", n ); }
// ---- F-31 signaling channel
void f31() {
    l2cap::signaling_channel<> ch; int dummy = 0; std::uint8_t out[ 23 ]; std::size_t n;
    printf( "queue request: %d\n", (int)ch.connection_parameter_update_request( 10, 20, 0, 100 ) );
    n = 23; ch.l2cap_output( out, n, dummy ); show( "request out", out, n );
    const std::uint8_t wrong_id[] = { 0x13, 0x55, 0x02, 0x00, 0x00, 0x00 };
    n = 23; ch.l2cap_input( wrong_id, sizeof wrong_id, out, n, dummy ); show( "response with identifier 0x55 ->", out, n );
    printf( "new request accepted (i.e. the wrong response completed the procedure): %d\n", (int)ch.connection_parameter_update_request( 10, 20, 0, 100 ) );
}
// ---- F-11 indication dropped for unsubscribed client
std::uint8_t a = 0xA1, b = 0xB2;
using UA = characteristic_uuid16< 0x2A01 >; using UB = characteristic_uuid16< 0x2A02 >;
using srv = server< no_gap_service_for_gatt_servers, service< service_uuid16< 0x1815 >,
     characteristic< UA, bind_characteristic_value< decltype( a ), &a >, indicate >,
     characteristic< UB, bind_characteristic_value< decltype( b ), &b >, indicate > > >;
struct conn_t : srv::channel_data_t< details::link_state > {};
srv s; conn_t cn;
static bool lcb( const details::notification_data& item, void*, details::notification_type type ) {
    switch ( type ) { case details::notification_type::notification: return cn.queue_notification( item.client_characteristic_configuration_index() );
                      case details::notification_type::indication: return cn.queue_indication( item.client_characteristic_configuration_index() );
                      default: cn.indication_confirmed(); return true; } }
static void req( const char* t, std::initializer_list< std::uint8_t > in ) { std::vector< std::uint8_t > i( in ); std::uint8_t out[ 23 ]; std::size_t n = 23; s.l2cap_input( i.data(), i.size(), out, n, cn ); show( t, out, n ); }
static void out( const char* t ) { std::uint8_t o[ 23 ]; std::size_t n = 23; s.l2cap_output( o, n, cn ); show( t, o, n ); }
void f11() {
    s.notification_callback( lcb, nullptr );
    printf( "indicate<UA> while unsubscribed: %d\n", (int)s.indicate< UA >() ); out( "poll ->" );
    req( "subscribe B (h=7) for indications", { 0x12, 0x07, 0x00, 0x02, 0x00 } );
    printf( "indicate<UB> while subscribed: %d\n", (int)s.indicate< UB >() ); out( "poll ->" ); out( "poll ->" );
}
// ---- F-40 csc control point
struct csc_handler {
    std::pair< std::uint32_t, std::uint16_t > cumulative_wheel_revolutions_and_time() { return { 1, 2 }; }
    std::pair< std::uint16_t, std::uint16_t > cumulative_crank_revolutions_and_time() { return { 3, 4 }; }
    void set_cumulative_wheel_revolutions( std::uint32_t ) {}
};
using csrv = server< no_gap_service_for_gatt_servers, cycling_speed_and_cadence< csc::handler< csc_handler >, csc::wheel_revolution_data_supported, sensor_location::top_of_shoe, sensor_location::in_shoe > >;
struct cconn_t : csrv::channel_data_t< details::link_state > {};
csrv cs; cconn_t ccn;
static bool clcb( const details::notification_data& item, void*, details::notification_type type ) {
    switch ( type ) { case details::notification_type::notification: return ccn.queue_notification( item.client_characteristic_configuration_index() );
                      case details::notification_type::indication: return ccn.queue_indication( item.client_characteristic_configuration_index() );
                      default: ccn.indication_confirmed(); return true; } }
static void creq( const char* t, std::initializer_list< std::uint8_t > in ) { std::vector< std::uint8_t > i( in ); std::uint8_t out[ 23 ]; std::size_t n = 23; cs.l2cap_input( i.data(), i.size(), out, n, ccn ); show( t, out, n ); }
static void cout_( const char* t ) { std::uint8_t o[ 23 ]; std::size_t n = 23; cs.l2cap_output( o, n, ccn ); show( t, o, n ); }
void f40() {
    cs.notification_callback( clcb, nullptr );
    std::uint16_t cp = 0, cccd = 0;
    for ( std::size_t i = 0; ; ++i ) { auto h = csrv::handle_mapping::handle_by_index( i ); if ( !h ) break; auto u = csrv::attribute_at( i ).uuid; printf( "%zu:%02x:%04x ", i, h, u ); if ( u == 0x2a55 ) { cp = h; cccd = h + 1; } } printf( "\n" );
    creq( "subscribe control point", { 0x12, std::uint8_t( cccd ), 0x00, 0x02, 0x00 } );
    creq( "malformed: update location, len 3", { 0x12, std::uint8_t( cp ), 0x00, 0x03, 0x01, 0x02 } );
    creq( "well formed: request locations", { 0x12, std::uint8_t( cp ), 0x00, 0x04 } );
    cout_( "poll ->" );
    creq( "well formed again", { 0x12, std::uint8_t( cp ), 0x00, 0x04 } );
}
int main() { setvbuf( stdout, nullptr, _IONBF, 0 ); f31(); printf( "--\n" ); f11(); printf( "--\n" ); f40(); }
