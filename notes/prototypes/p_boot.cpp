#include "prelude.hpp"
#include <bluetoe/server.hpp>
#include <bluetoe/services/bootloader.hpp>
using namespace bluetoe;
struct rng_t { std::uintptr_t a, e; const char* what; };
static std::vector< rng_t > touched;
struct handler {
    std::pair< const std::uint8_t*, std::size_t > get_version() { static const std::uint8_t v[] = { 1 }; return { v, 1 }; }
    void read_mem( std::uintptr_t a, std::size_t n, std::uint8_t* d ) { touched.push_back( { a, a + n, "read_mem" } ); std::fill( d, d + n, 0xee ); }
    std::uint32_t checksum32( std::uintptr_t a, std::size_t n ) { touched.push_back( { a, a + n, "checksum32" } ); return 0; }
    std::uint32_t checksum32( const std::uint8_t* p, std::size_t n, std::uint32_t c ) { for ( ; n; --n, ++p ) c += *p; return c; }
    std::uint32_t checksum32( std::uintptr_t a ) { return std::uint32_t( a ); }
    bootloader::error_codes public_read_mem( std::uintptr_t a, std::size_t n, std::uint8_t* d ) { touched.push_back( { a, a + n, "public_read_mem" } ); std::fill( d, d + n, 0 ); return bootloader::error_codes::success; }
    std::uint32_t public_checksum32( std::uintptr_t a, std::size_t n ) { touched.push_back( { a, a + n, "public_checksum32" } ); return 0; }
    bootloader::error_codes start_flash( std::uintptr_t a, const std::uint8_t*, std::size_t n ) { touched.push_back( { a, a + n, "start_flash" } ); return bootloader::error_codes::success; }
    bootloader::error_codes run( std::uintptr_t ) { return bootloader::error_codes::success; }
    bootloader::error_codes reset() { return bootloader::error_codes::success; }
    void control_point_notification_call_back() {} void data_indication_call_back() {}
};
using ctrl = bootloader::controller< handler, bootloader::white_list< bootloader::memory_region< 0x1000, 0x2000 > >, 0x100 >;
static std::vector< std::uint8_t > cp( std::uint8_t op, std::initializer_list< std::uint64_t > addrs ) { std::vector< std::uint8_t > v{ op }; for ( auto a : addrs ) for ( int i = 0; i != 8; ++i ) v.push_back( std::uint8_t( a >> ( 8 * i ) ) ); return v; }
int main() {
    setvbuf( stdout, nullptr, _IONBF, 0 );
    ctrl c;
    auto dump = [&]( const char* t ) { printf( "%s\n", t ); for ( auto& r : touched ) printf( "   %-18s [%#lx, %#lx) %s\n", r.what, r.a, r.e, ( r.a >= 0x1000 && r.e <= 0x2000 ) ? "" : "  <-- outside white list" ); touched.clear(); };
    // start flash at the last page, write 0x180 bytes -> runs into 0x2000..
    auto v = cp( 3, { 0x1f00 } ); auto r = c.bootloader_write_control_point( v.size(), v.data() ); printf( "start_flash 0x1f00 -> %u\n", r.first );
    std::vector< std::uint8_t > data( 0x180, 0x42 ); auto rc = c.bootloader_write_data( data.size(), data.data() ); printf( "write 0x180 bytes -> %u\n", rc );
    dump( "touched:" );
    v = cp( 3, { 0x2000 } ); r = c.bootloader_write_control_point( v.size(), v.data() ); printf( "start_flash at End (0x2000) -> %u\n", r.first ); dump( "touched:" );
    // read opcode with a 1-byte value (exact-size heap buffer)
    std::uint8_t* one = new std::uint8_t[ 1 ]{ 8 };
    r = c.bootloader_write_control_point( 1, one ); printf( "read opcode len 1 -> %u\n", r.first );
    delete[] one;
}
