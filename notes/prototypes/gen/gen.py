import random, sys, os, subprocess, json
def gen(seed):
    r=random.Random(seed)
    lines=[]; vars_=[]; names=[]
    def uuid128(k): return "0x8C8B4094, 0x0DE2, 0x499F, 0xA28A, 0x%012X" % (0x4EED5BC73C00 + k)
    nsvc=r.randint(1,4)
    svc_uuids=[]; sopts_all=[]
    handle=1
    nextfixed=1
    kctr=[0]
    def newvar(ctype, init=""):
        n="v%d"%len(vars_); vars_.append("%s %s%s;"%(ctype,n,init)); return n
    server_opts=[]
    if r.random()<0.5: server_opts.append("shared_write_queue< %d >"%r.choice([16,40,64,200]))
    if r.random()<0.6: server_opts.append("max_mtu_size< %d >"%r.choice([23,24,27,48,65,158,247,300]))
    if r.random()<0.3: server_opts.append("no_gap_service_for_gatt_servers")
    if r.random()<0.4:
        names.append('static constexpr char sname[] = "%s";'%("N"*r.randint(0,30))); server_opts.append("server_name< sname >")
    enc=r.choice([None,None,"requires_encryption","no_encryption_required","may_require_encryption"])
    if enc: server_opts.append(enc)
    cur=0x0001
    prio_svcs=[]
    for si in range(nsvc):
        is128=r.random()<0.4
        su=("service_uuid< %s >"%uuid128(si*16)) if is128 else ("service_uuid16< 0x%04X >"%(0x1810+si))
        svc_uuids.append(su)
        so=[su]
        if r.random()<0.3: so.append("is_secondary_service")
        if r.random()<0.4:
            so.append("@SVC_HANDLE@")
        e=r.choice([None,None,None,"requires_encryption","no_encryption_required","may_require_encryption"])
        if e: so.append(e)
        cur+=1
        nch=r.randint(0,4)
        cuuids=[]
        for ci in range(nch):
            co=[]
            k=r.random()
            if k<0.5: cu="characteristic_uuid16< 0x%04X >"%(0x2A00+si*16+ci); co.append(cu); cuuids.append(cu)
            elif k<0.8 or not is128: cu="characteristic_uuid< %s >"%uuid128(si*16+ci+1+100); co.append(cu); cuuids.append(cu)
            else: cuuids.append(None)
            vk=r.choice(["u8","u16","u32","arr","const","fix8","fix16","fix32","cstr","blob","hblob","hraw","hwr"])
            can_notify=True; writable=True
            if vk=="u8": co.append("bind_characteristic_value< std::uint8_t, &%s >"%newvar("std::uint8_t"))
            elif vk=="u16": co.append("bind_characteristic_value< std::uint16_t, &%s >"%newvar("std::uint16_t"))
            elif vk=="u32": co.append("bind_characteristic_value< std::uint32_t, &%s >"%newvar("std::uint32_t"))
            elif vk=="arr":
                n=r.randint(1,60); v=newvar("std::uint8_t","[%d]"%n); co.append("bind_characteristic_value< decltype( %s ), &%s >"%(v,v))
            elif vk=="const":
                v=newvar("const std::uint32_t"," = 0x11223344"); co.append("bind_characteristic_value< const std::uint32_t, &%s >"%v)
            elif vk=="fix8": co.append("fixed_uint8_value< 0x42 >")
            elif vk=="fix16": co.append("fixed_uint16_value< 0x4243 >")
            elif vk=="fix32": co.append("fixed_uint32_value< 0x42434445 >")
            elif vk=="cstr": names.append('static constexpr char cs%d[] = "%s";'%(len(names),"x"*r.randint(0,30))); co.append("cstring_value< cs%d >"%(len(names)-1)); can_notify=False
            elif vk=="blob": names.append('static const std::uint8_t bl%d[] = { 1,2,3,4,5 };'%len(names)); co.append("fixed_blob_value< bl%d, 5 >"%(len(names)-1)); can_notify=False
            elif vk=="hblob": co+= ["free_read_blob_handler< &rd_blob >","free_write_blob_handler< &wr_blob >"]
            elif vk=="hraw": co+= ["free_read_handler< &rd >","free_raw_write_handler< &wr_raw >"]
            elif vk=="hwr": co+= ["free_write_handler< std::uint8_t, &wr8 >"]; can_notify=False
            if r.random()<0.2 and vk not in("hwr",): co.append("no_read_access")
            if r.random()<0.2 and vk in("u8","u16","u32","arr"): co.append("no_write_access")
            if can_notify and r.random()<0.5: co.append("notify")
            if can_notify and r.random()<0.4: co.append("indicate")
            if r.random()<0.15: co.append("write_without_response")
            if r.random()<0.1: co.append("only_write_without_response")
            if r.random()<0.3: names.append('static constexpr char cn%d[] = "%s";'%(len(names),"c"*r.randint(1,25))); co.append("characteristic_name< cn%d >"%(len(names)-1))
            if r.random()<0.2: names.append('static const std::uint8_t ds%d[] = { 9,8,7 };'%len(names)); co.append("descriptor< 0x2904, ds%d, 3 >"%(len(names)-1))
            e=r.choice([None,None,None,None,"requires_encryption","no_encryption_required","may_require_encryption"])
            if e: co.append(e)
            hk=r.random()
            nattr=2+(1 if ("notify" in co or "indicate" in co) else 0)
            if hk<0.15:
                co.append("@CH_HANDLE@")
            elif hk<0.3:
                co.append("@CH_HANDLES%d@"%nattr)
            r.shuffle(co)
            nd = 2 + (1 if ("notify" in co or "indicate" in co) else 0) + (1 if any(x.startswith("characteristic_name") for x in co) else 0) + sum(1 for x in co if x.startswith("descriptor"))
            so.append(("CHAR", co, nd))
        pr=[]
        for item in so:
            if isinstance(item, tuple):
                co=item[1]
                if ("notify" in co or "indicate" in co):
                    for x in co:
                        if x.startswith("characteristic_uuid"): pr.append(x)
        if pr and r.random()<0.3:
            so.append("higher_outgoing_priority< %s >"%", ".join(r.sample(pr,r.randint(1,len(pr)))))
        cur+=20
        sopts_all.append(so)
    # includes (only if allowed)
    if os.environ.get("INCLUDES") and nsvc>1 and r.random()<0.5:
        a,b=r.sample(range(nsvc),2); sopts_all[a].insert(1,"include_service< %s >"%svc_uuids[b])
    cand=[svc_uuids[i] for i,so in enumerate(sopts_all) if any(isinstance(it,tuple) and ("notify" in it[1] or "indicate" in it[1]) for it in so)]
    if cand and r.random()<0.25: server_opts.append("higher_outgoing_priority< %s >"%", ".join(r.sample(cand,r.randint(1,len(cand)))))
    svc_strs=[]
    h=1
    for so in sopts_all:
        out=[]
        nincl=sum(1 for x in so if isinstance(x,str) and x.startswith("include_service"))
        if "@SVC_HANDLE@" in so:
            h+=r.randint(0,30)
        sh=h
        h+=1+nincl
        for it in so:
            if isinstance(it,tuple):
                co=list(it[1]); nd=it[2]
                if "@CH_HANDLE@" in co:
                    h+=r.randint(0,12); co[co.index("@CH_HANDLE@")]="attribute_handle< 0x%04X >"%h; h+=nd
                else:
                    ph=[x for x in co if x.startswith("@CH_HANDLES")]
                    if ph:
                        has_cccd = ("notify" in co or "indicate" in co)
                        d=h+r.randint(0,6); v=d+r.randint(1,4)
                        if has_cccd and r.random()<0.7:
                            c=v+r.randint(1,4); h=c+1+(nd-3)
                        elif has_cccd:
                            c=0; h=v+1+1+(nd-3)
                        else:
                            c=0; h=v+1+(nd-2)
                        co[co.index(ph[0])]="attribute_handles< 0x%04X, 0x%04X, 0x%04X >"%(d,v,c)
                    else:
                        h+=nd
                out.append("characteristic< %s >"%", ".join(co))
            elif it=="@SVC_HANDLE@":
                out.append("attribute_handle< 0x%04X >"%sh)
            else:
                out.append(it)
        # shuffle only non characteristic options
        chars=[x for x in out if x.startswith("characteristic<")]
        others=[x for x in out[1:] if not x.startswith("characteristic<")]
        r.shuffle(others)
        merged=[out[0]]+others[:len(others)//2]+chars+others[len(others)//2:]
        svc_strs.append("service< %s >"%",\n        ".join(merged))
    server_opts+=svc_strs
    rest=[x for x in server_opts if not x.startswith("service<")]
    r.shuffle(rest)
    server_opts=rest[:len(rest)//2]+svc_strs+rest[len(rest)//2:]
    src='''#include "../prelude.hpp"
#include <bluetoe/server.hpp>
using namespace bluetoe;
std::uint8_t hstore[ 50 ]; std::size_t hlen = 10;
std::uint8_t rd_blob( std::size_t offset, std::size_t read_size, std::uint8_t* out, std::size_t& out_size ) { if ( offset > hlen ) return error_codes::invalid_offset; out_size = std::min( read_size, hlen - offset ); std::copy( hstore + offset, hstore + offset + out_size, out ); return error_codes::success; }
std::uint8_t wr_blob( std::size_t offset, std::size_t n, const std::uint8_t* v ) { if ( offset + n > sizeof hstore ) return error_codes::invalid_attribute_value_length; std::copy( v, v + n, hstore + offset ); return error_codes::success; }
std::uint8_t rd( std::size_t read_size, std::uint8_t* out, std::size_t& out_size ) { out_size = std::min< std::size_t >( read_size, 4 ); std::fill( out, out + out_size, 7 ); return error_codes::success; }
std::uint8_t wr_raw( std::size_t n, const std::uint8_t* ) { return n <= 4 ? error_codes::success : error_codes::invalid_attribute_value_length; }
std::uint8_t wr8( std::uint8_t ) { return error_codes::success; }
%s
%s
using server_t = server<
    %s
>;
struct conn_t : server_t::channel_data_t< details::link_state > {};
#include <random>
#include <memory>
int main( int argc, char** argv ) {
    std::mt19937 rng( argc > 1 ? atoi( argv[ 1 ] ) : 1 );
    std::size_t n = 0; std::uint16_t maxh = 0; for ( ; server_t::handle_mapping::handle_by_index( n ); ++n ) maxh = server_t::handle_mapping::handle_by_index( n );
    static const std::uint8_t ops[] = { 0x02, 0x04, 0x06, 0x08, 0x0a, 0x0c, 0x0e, 0x10, 0x12, 0x52, 0x16, 0x18, 0x1e, 0x01, 0xd2, 0x1b, 0x33 };
    for ( int round = 0; round != 300; ++round ) {
        auto sp = std::make_unique< server_t >(); server_t& s = *sp; conn_t c[ 2 ];
        for ( int step = 0; step != 60; ++step ) {
            conn_t& cn = c[ rng() %% 2 ];
            if ( rng() %% 10 == 0 ) { cn.is_encrypted( rng() %% 2 ); cn.pairing_status( rng() %% 2 ? device_pairing_status::unauthenticated_key : device_pairing_status::no_key ); }
            if ( rng() %% 25 == 0 ) { s.client_disconnected( cn ); continue; }
            std::vector< std::uint8_t > in; in.push_back( ops[ rng() %% sizeof ops ] );
            auto handle = [&]{ std::uint16_t h = rng() %% 4 == 0 ? std::uint16_t( rng() ) : std::uint16_t( rng() %% ( maxh + 3 ) ); in.push_back( h & 0xff ); in.push_back( h >> 8 ); };
            switch ( in[ 0 ] ) {
                case 0x02: in.push_back( rng() %% 80 ); in.push_back( rng() %% 3 == 0 ? rng() : 0 ); break;
                case 0x04: handle(); handle(); break;
                case 0x06: handle(); handle(); in.push_back( 0x00 ); in.push_back( 0x28 ); in.push_back( rng() ); in.push_back( 0x18 ); if ( rng() %% 4 == 0 ) in.resize( 23, 0x55 ); break;
                case 0x08: case 0x10: handle(); handle(); { static const std::uint16_t ts[] = { 0x2800, 0x2801, 0x2802, 0x2803, 0x2902, 0x2901, 0x2a00, 0x2a19, 0x2904 }; auto t = ts[ rng() %% 9 ]; in.push_back( t & 0xff ); in.push_back( t >> 8 ); if ( rng() %% 6 == 0 ) in.resize( 21, 0x3c ); } break;
                case 0x0a: handle(); break;
                case 0x0c: handle(); in.push_back( rng() %% 70 ); in.push_back( rng() %% 5 == 0 ? rng() : 0 ); break;
                case 0x0e: { int k = 1 + rng() %% 4; while ( k-- ) handle(); } break;
                case 0x12: case 0x52: case 0xd2: handle(); { int k = rng() %% 24; while ( k-- ) in.push_back( rng() ); } break;
                case 0x16: handle(); in.push_back( rng() %% 70 ); in.push_back( 0 ); { int k = rng() %% 18; while ( k-- ) in.push_back( rng() ); } break;
                case 0x18: in.push_back( rng() %% 3 ); break;
                default: { int k = rng() %% 6; while ( k-- ) in.push_back( rng() ); }
            }
            if ( rng() %% 8 == 0 ) in.resize( 1 + rng() %% 24, 0x11 );     // wrong sizes
            const std::size_t mtu = cn.negotiated_mtu(); const std::size_t given = server_t::maximum_channel_mtu_size;
            std::unique_ptr< std::uint8_t[] > ib( new std::uint8_t[ in.size() ] ); std::copy( in.begin(), in.end(), ib.get() );
            std::unique_ptr< std::uint8_t[] > ob( new std::uint8_t[ given ] ); std::size_t os = given;
            s.l2cap_input( ib.get(), in.size(), ob.get(), os, cn );
            if ( os > mtu ) { printf( "RESPONSE LARGER THAN MTU: %%zu > %%zu op %%02x\\n", os, mtu, in[ 0 ] ); return 1; }
        }
    }
    printf( "%%zu ok\\n", n );
}
''' % ("\n".join(vars_), "\n".join(names), ",\n    ".join(server_opts))
    return src
if __name__=="__main__":
    for seed in range(int(sys.argv[1]), int(sys.argv[2])):
        open("d%03d.cpp"%seed,"w").write(gen(seed))
