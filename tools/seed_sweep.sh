#!/bin/bash
# seed_sweep.sh <tier> <seeds...> -- run the given properties (env PROPS, default: all) with several VERIF_SEED values; log in notes/seed-sweep.log
cd /verif
tier=$1; shift
PROPS=${PROPS:-$(./check --list 2>/dev/null | awk '{print $1}')}
for s in "$@"; do
  for P in $PROPS; do
    out=$(VERIF_SEED=$s ./check $P --tier $tier 2>/dev/null)
    rc=$?
    echo "seed=$s rc=$rc $(echo "$out" | tail -1)" >> notes/seed-sweep.log
    echo "$out" | grep -E "^(VIOLATION|DETAIL)" | cut -c1-260 >> notes/seed-sweep.log
  done
done
