#!/bin/bash
# run every registered check's quick tier once against /repo; summary in notes/last-quick-run.log
cd /verif
: > notes/last-quick-run.log
for P in $(./check --list 2>/dev/null | awk '{print $1}'); do
    out=$(./check $P --tier quick 2>/dev/null)
    rc=$?
    echo "rc=$rc $(echo "$out" | tail -1)" >> notes/last-quick-run.log
    echo "$out" | grep -E "^(VIOLATION|KNOWN-FINDING)" | cut -c1-200 >> notes/last-quick-run.log
done
