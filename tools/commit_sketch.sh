#!/bin/bash
# commit_sketch.sh <patch file> : apply a repair sketch to /repo and commit it with the subject/body of the patch
set -e
f="$1"
python3 - "$f" > /var/tmp/msg.txt <<'PY'
import sys,re
s=open(sys.argv[1]).read()
m=re.search(r'^Subject: \[PATCH\] (.*(?:\n .*)*)', s, re.M)
subj=' '.join(x.strip() for x in m.group(1).split('\n'))
rest=s[m.end():]
body=rest.split('\n---\n')[0].strip() if '\n---\n' in rest else rest.split('\ndiff --git')[0].strip()
body='\n'.join(l for l in body.split('\n') if '/verif' not in l and 'sketch' not in l.lower())
if not subj.startswith('fix:'): subj='fix: '+subj
print(subj); print(); print(body)
PY
git -C /repo apply "$f"
git -C /repo add -A bluetoe
git -C /repo commit -q -F /var/tmp/msg.txt
echo "committed $(git -C /repo log --format='%h %s' -1)"
