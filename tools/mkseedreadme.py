import json,os,glob
notes={
 'C06-write-offset-8bit':"first missed by C06 and C07 (offsets >= 256 with a valid low octet were generated too rarely; the execute of an invalid queued write was only a C07 oracle). Strengthened: offsets (high octet != 0, low octet valid), prepare/execute/read scenario, oracle c06.execute-invalid-write. Now found by C06 and C07.",
 'C05-notification-before-encryption-check':"first missed by C05 (the sequence subscribe-while-encrypted / drop encryption / notify / poll was too rare). Strengthened: scenario generator. Now found by c05.leak.",
 'C01-write-queue-header-off-by-one':"first missed by C01 (intra-object overflow of the queue array, invisible to ASan; exact fill needed), found by C07. Strengthened: fill-the-queue-to-the-brim scenario; now UBSan (array index out of bounds) in the C01 sweep. (C07 no longer flags it since its queue accounting became two-sided.)",
 'C08-output-clipped-to-client-mtu':"first missed by C08 (the harness never handed l2cap_output a buffer larger than the server MTU). Strengthened: buffers up to max_mtu + 64. Now found by c08.notification-size.",
 'C33-early-return-before-ea-check':"first found only by C32 (sm.dhkey-unverified); C33 and C35 ended the case silently at the foreign deviation. Strengthened: before a case stops on a deviation of another property the own property is judged once more (no key / no_key status unless the reference saw a pairing complete). Now found by C32, C33 and C35.",
 'C35-stale-oob-flag':"first found only by C36 (method selection); after the change above also by C35 (status.mismatch).",
 'C20-pullback-offset-481':"the change is in peripheral_latency.hpp (channel index after a far pull-back); found by C23 (latency.channel-index), not by the component level C20 check (channel_map itself is intact). The agent for C23 produced the same change independently.",
 'C27-r2-phy-request-relabels-timer':"NOT detected. The change needs two overlapping peripheral-initiated procedures (an unanswered version exchange or parameter request plus a PHY request that is answered); the C27 harness treats a second own procedure that crosses an outstanding one as unconstrained and therefore never asserts the 40 s timeout of the first. Recorded as a gap of the C27 check (overlapping own procedures).",
 'C02-r2-uuid-filter-byte15-truncated':"first missed by C02 (128 bit forms of 16 bit types were only generated exactly); strengthened: near misses of the Bluetooth base UUID form (upper 16 bit non zero, one bit of the base flipped). Now found by c02.not-found.",
 'C04-r2-include-end-handle-high-byte':"first missed by C04 (no included 128 bit service spanned a multiple of 0x100 handles); strengthened: fixed service handles a few handles in front of a 0x100 boundary. Now found by c04.attribute-value.",
 'C10-r2-by-uuid-matches-priority-order':"first missed by C10 (characteristic UUIDs were unique per server); strengthened: the same characteristic UUID in two services (the later one can only be requested by value). Now found by c10.handle.",
 'C02-index-by-handle-behind-cccd':"found by C02 and C04; the agent for C04 produced the same change independently.",
}
rows=[]
for d in sorted(glob.glob('/verif/seeded/*/')):
    am=json.load(open(d+'agent-meta.json')) if os.path.exists(d+'agent-meta.json') else {}
    cr=json.load(open(d+'check-results.json')) if os.path.exists(d+'check-results.json') else {}
    i=os.path.basename(d.rstrip('/'))
    meta={'id':i,'property':am.get('property'),'summary':am.get('summary'),'needs_to_manifest':am.get('needs'),
          'existing_tests_run_by_seeding_agent':am.get('tests_run'),
          'confirmed_here':{'demo_exit_with_change':cr.get('demo_exit_with_change'),'demo_exit_without_change':cr.get('demo_exit_without_change'),
                            'how':'tools/try_seed.sh: patch applied to an export of /repo HEAD, run_demo.sh <tree> on the patched and on the clean export, then VERIF_REPO=<patched export> ./check <Cxx> --tier quick (last run recorded)'},
          'checks':cr.get('checks'),'history':notes.get(i,'found at the first attempt')}
    json.dump(meta,open(d+'meta.json','w'),indent=1)
    caught=[c['property'] for c in (cr.get('checks') or []) if c['exit']==1]
    rows.append('| `%s` | %s | %s | %s |' % (i, str(am.get('summary') or '').replace('|','/').replace('\n',' ')[:150], ', '.join(caught) or '-', notes.get(i,'first attempt')[:220]))
open('/verif/seeded/README.md','w').write('''# Independently seeded changes

Each directory holds a change produced by a sub-agent that saw only the text of one property and a scratch worktree of the repository
(never /verif): `patch.diff` (applies to /repo HEAD with `git -C /repo apply`), the agent's demonstration (`demo.*`, `run_demo.sh <tree>`),
`agent-meta.json` (the agent's own description), `meta.json` (property, what it needs to manifest, what was run here and the result),
`found-by-<Cxx>.case` (shrunk case of the check that caught it). All changes compile and pass the existing tests (rebuilt by the seeding agent);
every demonstration was re-run here on a patched and on a clean export (fails / passes). One agent per property C01..C40 was asked; two pairs
produced the same change (C02/C04, C20/C23), which is kept once. A second round (`*-r2-*`) asked for a different mechanism for C01..C11, C14, C15, C19,
C21, C22, C27, C28, C29, C32 (20 more changes). The "caught by" column is the last recorded run of `tools/try_seed.sh`.

| id | change | caught by (quick tier) | history |
|---|---|---|---|
'''+'\n'.join(rows)+'\n')
print(len(rows))
