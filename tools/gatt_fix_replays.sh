#!/bin/bash
# for each (fix commit, property, finding id): run the check against the parent of the fix commit, expect a violation,
# keep the shrunk case as regression replay replays/<P>/<target>--<Fid>.case
while read commit prop fid; do
    [ -z "$commit" ] && continue
    d=/var/tmp/bt-fixval-$fid
    rm -rf $d; mkdir -p $d
    git -C /repo archive $commit^ bluetoe tests/test_tools | tar x -C $d
    rm -rf /verif/replays/found
    out=$(cd /verif && VERIF_REPO=$d ./check $prop --tier quick 2>/dev/null)
    viol=$(echo "$out" | grep "^VIOLATION" | head -1 | sed 's/.*replay=//')
    detail=$(echo "$out" | grep "^DETAIL" | head -1 | cut -c1-200)
    if [ -n "$viol" ] && [ -f "$viol" ]; then
        target=$(basename $viol | sed "s/^$prop-//; s/-[0-9a-f]*\.case$//")
        mkdir -p /verif/replays/$prop
        cp $viol /verif/replays/$prop/$target--$fid.case
        echo "$fid $prop at $commit^: VIOLATION -> replays/$prop/$target--$fid.case :: $detail"
    else
        echo "$fid $prop at $commit^: NO VIOLATION  ($(echo "$out" | tail -1))"
    fi
    rm -rf $d
done
