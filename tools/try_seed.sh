#!/bin/bash
# try_seed.sh <seed id> <out dir of the seeding agent> <property>...  : confirm a seeded change and run checks against it
id=$1; out=$2; shift 2
S=/verif/seeded/$id
mkdir -p $S
cp $out/patch.diff $S/patch.diff
for f in $out/demo.* $out/run_demo.sh; do [ -f $f ] && cp $f $S/; done
[ -d $out/fake ] && cp -r $out/fake $S/
[ -f $out/meta.json ] && cp $out/meta.json $S/agent-meta.json
clean=/var/tmp/bt-seed-$id-clean; mut=/var/tmp/bt-seed-$id-mut
rm -rf $clean $mut; mkdir -p $clean $mut
git -C /repo archive HEAD | tar x -C $clean
git -C /repo archive HEAD | tar x -C $mut
( cd $mut && patch -p1 -s < $S/patch.diff ) || { echo "PATCH DOES NOT APPLY"; exit 2; }
demo_mut=skipped; demo_clean=skipped
if [ -f $S/run_demo.sh ]; then
    ( cd $S && bash ./run_demo.sh $mut > $S/demo-with-change.log 2>&1 ); demo_mut=$?
    ( cd $S && bash ./run_demo.sh $clean > $S/demo-without-change.log 2>&1 ); demo_clean=$?
fi
echo "demo exit with change: $demo_mut, without: $demo_clean"
results=""
for P in "$@"; do
    o=$(cd /verif && VERIF_REPO=$mut ./check $P --tier quick 2>/dev/null)
    rc=$?
    line=$(echo "$o" | tail -1)
    det=$(echo "$o" | grep "^DETAIL" | head -1 | cut -c1-300)
    echo "$P rc=$rc :: $line :: $det"
    results="$results{\"property\":\"$P\",\"exit\":$rc,\"summary\":$(python3 -c 'import json,sys; print(json.dumps(sys.argv[1]))' "$line"),\"first_detail\":$(python3 -c 'import json,sys; print(json.dumps(sys.argv[1]))' "$det")},"
    v=$(echo "$o" | grep "^VIOLATION" | head -1 | sed 's/.*replay=//')
    [ -n "$v" ] && [ -f "$v" ] && cp "$v" $S/found-by-$P.case
done
echo "{\"demo_exit_with_change\":\"$demo_mut\",\"demo_exit_without_change\":\"$demo_clean\",\"checks\":[${results%,}]}" > $S/check-results.json
rm -rf $clean $mut
