#!/bin/bash
# validate_fix_commits.sh -- every commit of /repo after the pinned snapshot is checked on its own:
# the unedited test suite (BLUETOE_VERIF_HOOKS off) must give the 70 baseline passes.
# Uses one scratch worktree and one build directory (incremental) outside /repo and /verif; removes both at the end.
#   tools/validate_fix_commits.sh [first-commit-to-check]      (default: all commits after 193dfc0)
set -u
BASE=193dfc0
WT=/var/tmp/bt-validate-wt
BLD=/var/tmp/bt-validate-build
LOG=/verif/notes/fix-commit-validation${1:+-from-$1}.log
FIRST=${1:-}
git -C /repo worktree remove --force $WT 2>/dev/null
rm -rf $WT $BLD
git -C /repo worktree add -q --detach $WT $BASE || exit 2
: > $LOG.tmp
started=0
[ -z "$FIRST" ] && started=1
for c in $(git -C /repo rev-list --reverse $BASE..HEAD); do
    short=$(git -C /repo log --format=%h -1 $c)
    if [ $started = 0 ]; then
        case $c in $FIRST*) started=1;; *) [ "$short" = "$FIRST" ] && started=1;; esac
    fi
    [ $started = 0 ] && continue
    git -C $WT checkout -q --detach $c
    [ -d $BLD ] || cmake -G Ninja -S $WT -B $BLD -DBLUETOE_BUILD_UNIT_TESTS=ON -DCMAKE_BUILD_TYPE=RelWithDebInfo -DCMAKE_CXX_FLAGS=-Wno-error > /dev/null 2>&1
    cmake --build $BLD -j${JOBS:-8} -- -k 0 > $BLD.build.log 2>&1
    ctest --test-dir $BLD -j8 --timeout 900 > $BLD.test.log 2>&1
    passed=$(grep -c " Passed " $BLD.test.log)
    failed=$(grep -E "\*\*\*Failed|\*\*\*Timeout|Exception" $BLD.test.log | grep -v "Not Run" | wc -l)
    echo "$short passed=$passed failed=$failed $(git -C /repo log --format=%s -1 $c | cut -c1-90)" | tee -a $LOG.tmp
done
mv $LOG.tmp $LOG
git -C /repo worktree remove --force $WT
rm -rf $BLD $BLD.build.log $BLD.test.log
