"""registry of harness targets and of the checks built from them (read by ./check)

TARGETS[name]:  src (relative to /verif), extra_src ($REPO expanded), cxxflags, compiler, libs, opts,
                quick / thorough: {cases, size, procs, max_seconds, opts}
PROPERTIES[id]: targets, engine, rule (how cases are generated / what is non-trivial), technique, level_text,
                level_note, assumptions
"""

LL_SRC = ['$REPO/bluetoe/link_layer/*.cpp', '$REPO/bluetoe/utility/address.cpp']

TARGETS = {}
PROPERTIES = {}
BUILDERS = {}
SETUP_HOOKS = []
NOT_APPLICABLE = []


def target(name, src, quick, thorough, **kw):
    TARGETS[name] = dict(name=name, src=src if isinstance(src, list) else [src], quick=quick, thorough=thorough, **kw)


def prop(pid, targets, engine, rule, technique, level_text, level_note, assumptions=None, **kw):
    PROPERTIES[pid] = dict(targets=targets, engine=engine, rule=rule, technique=technique, level_text=level_text,
                           level_note=level_note, assumptions=assumptions or [], **kw)


COMMON_ASSUME = ['rapidcheck, clang 14 ASan/UBSan and the harness reference model are trusted',
                 'the harness takes the place of the hardware binding; nrf5x register level code is not executed']

# ------------------------------------------------------------------------------------------------- C12
target('c12_queue', 'engines/comp/c12_queue.cpp',
       quick=dict(cases=40000, size=120), thorough=dict(cases=3000000, size=200))
prop('C12', ['c12_queue'], 'comp',
     rule='rapidcheck generates a priority partition (24 instantiated compositions of 1..9 characteristics into 1..4 levels, '
          'single-entry levels in every position) and a sequence of queue_notification/queue_indication/dequeue/confirm/clear '
          'operations (length grows with the rapidcheck size); a case is non-trivial if it contains a dequeue while two or more '
          'levels hold eligible requests, or a single-entry level held both kinds at once; distinct = distinct serialised cases',
     technique='model-based property testing (rapidcheck) against a set-of-pending-requests reference model with priority and round-robin fairness oracles',
     level_text='generated operation sequences are compared step by step with an explicit set model: return values, exactly-once '
                'dequeue, strict priority between levels, no characteristic served twice while another of the same level stays '
                'pending; a final drain proves nothing is lost. Sampling, not proof.',
     level_note='trusted: the reference model in engines/comp/c12_queue.cpp, rapidcheck; fairness is asserted between '
                'characteristics of one level (not between the two kinds of one characteristic)',
     assumptions=COMMON_ASSUME)

# ------------------------------------------------------------------------------------------------- manifest parts
HOOKS = {
    'guard': 'BLUETOE_VERIF_HOOKS',
    'enable': 'every harness is compiled with -DBLUETOE_VERIF_HOOKS (see BASE_FLAGS in ./check)',
    'baseline_off_cmd': 'cmake --build /repo/_build -j16 -- -k 0 >/dev/null 2>&1; ctest --test-dir /repo/_build -j8 --timeout 900',
    'source_commits': [],
    'add_only': True,
}

ENGINES = [
    {'name': 'comp', 'path': 'engines/comp', 'serves_properties': [], 'kind_free_text': 'rapidcheck component harnesses against reference models'},
    {'name': 'gatt', 'path': 'engines/gatt', 'serves_properties': [], 'kind_free_text': 'generated C++ server declarations + reference ATT/GATT model, rapidcheck request histories'},
    {'name': 'll', 'path': 'engines/ll', 'serves_properties': [], 'kind_free_text': 'link layer under a harness-owned radio and reference central, rapidcheck schedules'},
]

NOTES = 'All checks are property-based tests / fuzzers with explicit oracles; see DESIGN.md. KNOWN_FINDINGS.txt lists open and fixed findings.'


def finalize():
    for e in ENGINES:
        e['serves_properties'] = sorted(p for p, s in PROPERTIES.items() if s['engine'] == e['name'] and not s.get('not_applicable'))


finalize()
