"""registry of harness targets and of the checks built from them (read by ./check)

TARGETS[name]:  src (relative to /verif), extra_src ($REPO expanded), cxxflags, compiler, libs, opts,
                quick / thorough: {cases, size, procs, max_seconds, opts}
PROPERTIES[id]: targets, engine, rule (how cases are generated / what is non-trivial), technique, level_text,
                level_note, assumptions
"""

LL_SRC = ['$REPO/bluetoe/link_layer/*.cpp', '$REPO/bluetoe/utility/address.cpp']

TARGETS = {}
PROPERTIES = {}
BUILDERS = {}
SETUP_HOOKS = []
NOT_APPLICABLE = []


def target(name, src, quick, thorough, **kw):
    TARGETS[name] = dict(name=name, src=src if isinstance(src, list) else [src], quick=quick, thorough=thorough, **kw)


def prop(pid, targets, engine, rule, technique, level_text, level_note, assumptions=None, **kw):
    PROPERTIES[pid] = dict(targets=targets, engine=engine, rule=rule, technique=technique, level_text=level_text,
                           level_note=level_note, assumptions=assumptions or [], **kw)


COMMON_ASSUME = ['rapidcheck, clang 14 ASan/UBSan and the harness reference model are trusted',
                 'the harness takes the place of the hardware binding; nrf5x register level code is not executed']

# ------------------------------------------------------------------------------------------------- fragments
# every harness registers itself in engines/<engine>/<name>.reg.py (executed here with target(), prop(), LL_SRC,
# COMMON_ASSUME, TARGETS, PROPERTIES, BUILDERS, SETUP_HOOKS in scope)
import glob as _glob, os as _os
for _f in sorted(_glob.glob(_os.path.join(_os.path.dirname(_os.path.abspath(__file__)), 'engines', '*', '*.reg.py'))):
    exec(compile(open(_f).read(), _f, 'exec'), globals())

# ------------------------------------------------------------------------------------------------- manifest parts
HOOKS = {
    'guard': 'BLUETOE_VERIF_HOOKS',
    'enable': 'every harness is compiled with -DBLUETOE_VERIF_HOOKS (see BASE_FLAGS in ./check)',
    'baseline_off_cmd': 'cmake --build /repo/_build -j16 -- -k 0 >/dev/null 2>&1; ctest --test-dir /repo/_build -j8 --timeout 900',
    'source_commits': ['9843ce8', '52663a4'],
    'add_only': True,
}

ENGINES = [
    {'name': 'comp', 'path': 'engines/comp', 'serves_properties': [], 'kind_free_text': 'rapidcheck component harnesses against reference models'},
    {'name': 'gatt', 'path': 'engines/gatt', 'serves_properties': [], 'kind_free_text': 'generated C++ server declarations + reference ATT/GATT model, rapidcheck request histories'},
    {'name': 'll', 'path': 'engines/ll', 'serves_properties': [], 'kind_free_text': 'link layer under a harness-owned radio and reference central, rapidcheck schedules'},
]

NOTES = 'All checks are property-based tests / fuzzers with explicit oracles; see DESIGN.md. KNOWN_FINDINGS.txt lists open and fixed findings.'


def finalize():
    for e in ENGINES:
        e['serves_properties'] = sorted(p for p, s in PROPERTIES.items() if s['engine'] == e['name'] and not s.get('not_applicable'))


finalize()
