// att_model.hpp -- reference ATT/GATT server model over a declared database (vg::Db), DESIGN.md Appendix A.
//
// The model is written from the ATT/GATT specification and bluetoe's documentation. It never predicts a whole response
// unless the property says so: every request is judged by validity predicates. Each predicate belongs to one property
// ("c02.", "c05.", ...). A failing predicate of the property under test is a violation; a failing predicate of another
// property only ends the case (the model can no longer follow the server) and is counted as "diverged".
#pragma once

#include "gatt_if.hpp"
#include "verif.hpp"

#include <algorithm>
#include <map>
#include <set>

namespace vg {

    struct Diverged
    {
        std::string what;
    };

    inline std::uint16_t rd16( const std::uint8_t* p ) { return static_cast< std::uint16_t >( p[ 0 ] | ( p[ 1 ] << 8 ) ); }
    inline void          push16( bytes& b, std::uint16_t v )
    {
        b.push_back( v & 0xff );
        b.push_back( v >> 8 );
    }

    // a 16 bit UUID may be given in its 128 bit form (Bluetooth base UUID)
    inline bytes norm_uuid( const bytes& u )
    {
        static const std::uint8_t base[ 12 ] = { 0xfb, 0x34, 0x9b, 0x5f, 0x80, 0x00, 0x00, 0x80, 0x00, 0x10, 0x00, 0x00 };
        if ( u.size() == 16 && std::equal( base, base + 12, u.begin() ) && u[ 14 ] == 0 && u[ 15 ] == 0 )
            return bytes{ u[ 12 ], u[ 13 ] };
        return u;
    }

    struct ConnState
    {
        bool                              connected   = false;
        int                               sec         = 0;    // 0 none, 1 key but unencrypted, 2 encrypted
        int                               client_mtu  = 23;
        std::vector< int >                cccd;                // per characteristic, 2 bits
        bool                              outstanding = false; // indication sent, confirmation not yet received
        std::set< std::pair< int, int > > maybe;               // (chr, kind 0=notification 1=indication) possibly pending
        std::set< std::pair< int, int > > certain;             // certainly pending (never droppable since requested)
        std::set< std::pair< int, int > > ghost;               // was droppable when the queue was polled: dropped or still queued
        int                               ghost_budget = 0;    // upper bound of the ghosts that are still queued
    };

    struct QueueEntry
    {
        int   attr;
        int   offset;
        bytes data;
    };

    class Model
    {
    public:
        Model( ServerIf& s, const std::string& property, verif::Report& rep )
            : srv( s )
            , db( s.db() )
            , prop( property )
            , rep_( rep )
        {
            for ( auto& c : con )
                c.cccd.assign( db.chrs.size(), 0 );
            store.resize( db.n_vars );
            for ( int v = 0; v != db.n_vars; ++v )
                store[ v ] = srv.get_var( v );
            for ( std::size_t i = 0; i != db.attrs.size(); ++i )
                by_handle[ db.attrs[ i ].handle ] = static_cast< int >( i );
            excl_cmd_error = verif::opt_has( "exclude", "F-01a-cmd" );
            excl_skip      = verif::opt_has( "exclude", "F-02de" );
        }

        ServerIf&     srv;
        const Db&     db;
        std::string   prop;
        verif::Report& rep_;
        ConnState     con[ 3 ];
        std::vector< bytes > store;          // reference content of bound variables / handler stores
        std::map< std::uint16_t, int > by_handle;
        int           queue_owner = -1;
        std::vector< QueueEntry > queue;
        bool          excl_cmd_error, excl_skip;
        std::size_t   cccd_calls_seen = 0;
        bool          touched_protected_unencrypted = false;

        // ------------------------------------------------------------------------------------ predicate plumbing
        bool enabled( const char* oracle ) const
        {
            // oracle names start with "cNN."
            return prop.size() == 3 && ( oracle[ 1 ] == prop[ 1 ] && oracle[ 2 ] == prop[ 2 ] );
        }

        template < class... Ts >
        void require( bool cond, const char* oracle, const Ts&... msg )
        {
            if ( cond )
                return;
            if ( enabled( oracle ) )
                verif::fail( oracle, verif::cat( msg... ) );
            throw Diverged{ verif::cat( oracle, ": ", msg... ) };
        }

        // a predicate that belongs to two properties
        template < class... Ts >
        void require2( bool cond, const char* oracle_a, const char* oracle_b, const Ts&... msg )
        {
            if ( cond )
                return;
            if ( enabled( oracle_a ) )
                verif::fail( oracle_a, verif::cat( msg... ) );
            if ( enabled( oracle_b ) )
                verif::fail( oracle_b, verif::cat( msg... ) );
            throw Diverged{ verif::cat( oracle_a, ": ", msg... ) };
        }

        template < class... Ts >
        void require_sig( bool cond, const char* oracle, const std::string& sig, const Ts&... msg )
        {
            if ( cond )
                return;
            if ( enabled( oracle ) )
                verif::fail( oracle, verif::cat( msg... ), sig );
            throw Diverged{ verif::cat( oracle, ": ", msg... ) };
        }

        // ------------------------------------------------------------------------------------ database helpers
        int mtu( int c ) const { return std::min( db.max_mtu, con[ c ].client_mtu ); }

        int attr_at( std::uint16_t handle ) const
        {
            auto i = by_handle.find( handle );
            return i == by_handle.end() ? -1 : i->second;
        }

        bool readable( const Chr& ch ) const { return !ch.no_read && ch.vk != V_HWRONLY; }
        bool writable( const Chr& ch ) const
        {
            return !ch.no_write && ( ch.vk == V_VAR || ch.vk == V_HBLOB || ch.vk == V_HRAW || ch.vk == V_HWRONLY );
        }
        bool protected_now( const Chr& ch, int c ) const { return ch.enc == 1 && con[ c ].sec != 2; }
        bool enc_unknown( const Chr& ch ) const { return ch.enc == 2; }

        bytes chr_value( const Chr& ch ) const
        {
            switch ( ch.vk )
            {
            case V_VAR:
            case V_CONSTVAR:
            case V_HBLOB:
            case V_HRAW:
            case V_HRDONLY:
            case V_HWRONLY: return store[ ch.var ];
            default: return ch.fixed;
            }
        }

        std::uint8_t properties( const Chr& ch ) const
        {
            std::uint8_t p = 0;
            if ( readable( ch ) ) p |= 0x02;
            if ( ch.wwr || ch.only_wwr ) p |= 0x04;
            if ( writable( ch ) && !ch.only_wwr ) p |= 0x08;
            if ( ch.notify ) p |= 0x10;
            if ( ch.indicate ) p |= 0x20;
            return p;
        }

        // value of attributes that are not characteristic values
        bytes plain_value( int ai, int c ) const
        {
            const Attr& a = db.attrs[ ai ];
            bytes       v;
            switch ( a.kind )
            {
            case A_SERVICE: v = db.svcs[ a.service ].uuid; break;
            case A_INCLUDE: {
                const Svc& s = db.svcs[ a.incl_service ];
                push16( v, db.attrs[ s.first_attr ].handle );
                push16( v, db.attrs[ s.last_attr ].handle );
                if ( s.uuid.size() == 2 )
                    v.insert( v.end(), s.uuid.begin(), s.uuid.end() );
            }
            break;
            case A_CHARDECL: {
                const Chr& ch = db.chrs[ a.chr ];
                v.push_back( properties( ch ) );
                push16( v, db.attrs[ ch.value_attr ].handle );
                v.insert( v.end(), ch.uuid.begin(), ch.uuid.end() );
            }
            break;
            case A_CCCD: push16( v, static_cast< std::uint16_t >( con[ c ].cccd[ a.chr ] ) ); break;
            case A_USERDESC:
            case A_DESCRIPTOR: v = a.fixed; break;
            default: break;
            }
            return v;
        }

        enum read_status { RS_OK, RS_PROTECTED, RS_NOT_READABLE, RS_UNKNOWN };

        // what a read of attribute ai on connection c yields
        read_status read_attr( int ai, int c, bytes& value ) const
        {
            const Attr& a = db.attrs[ ai ];
            if ( a.kind == A_VALUE || a.kind == A_CCCD )
            {
                const Chr& ch = db.chrs[ a.chr ];
                if ( enc_unknown( ch ) && con[ c ].sec != 2 )
                    return RS_UNKNOWN;
                if ( protected_now( ch, c ) )
                    return RS_PROTECTED;
                if ( a.kind == A_VALUE )
                {
                    if ( !readable( ch ) )
                        return RS_NOT_READABLE;
                    value = chr_value( ch );
                    return RS_OK;
                }
            }
            value = plain_value( ai, c );
            return RS_OK;
        }

        bool long_readable( int ai ) const
        {
            const Attr& a = db.attrs[ ai ];
            if ( a.kind != A_VALUE )
                return false;
            const int vk = db.chrs[ a.chr ].vk;
            return vk == V_VAR || vk == V_CONSTVAR;
        }

        static bool is_error( const bytes& out, std::uint8_t op ) { return out.size() == 5 && out[ 0 ] == 0x01 && out[ 1 ] == op; }
        static bool is_error_code( const bytes& out, std::uint8_t op, std::uint8_t code ) { return is_error( out, op ) && out[ 4 ] == code; }

        void require_protected_error( const bytes& out, std::uint8_t op, int c, std::uint16_t handle, const char* what )
        {
            const std::uint8_t code = con[ c ].sec == 0 ? 0x05 : 0x0f;
            touched_protected_unencrypted = true;
            require( is_error_code( out, op, code ), "c05.error-code", what, " on protected handle ", handle, " while unencrypted (security state ",
                con[ c ].sec, ") must be answered with error ", int( code ), ", got ", verif::hex( out ) );
        }

        // ------------------------------------------------------------------------------------ the request oracle
        void request( int c, const bytes& in, const bytes& out, std::size_t given )
        {
            const std::uint8_t op = in[ 0 ];
            lim = std::min< int >( static_cast< int >( given ), mtu_before );
            framing( c, in, out, given );
            leak_check( c, out, "response" );
            switch ( op )
            {
            case 0x02: exchange_mtu( c, in, out ); break;
            case 0x04: find_information( c, in, out ); break;
            case 0x06: find_by_type_value( c, in, out ); break;
            case 0x08: read_by_type( c, in, out ); break;
            case 0x0a: read( c, in, out ); break;
            case 0x0c: read_blob( c, in, out ); break;
            case 0x0e: read_multiple( c, in, out ); break;
            case 0x10: read_by_group_type( c, in, out ); break;
            case 0x12: write( c, in, out, false ); break;
            case 0x52: write( c, in, out, true ); break;
            case 0x16: prepare_write( c, in, out ); break;
            case 0x18: execute_write( c, in, out ); break;
            case 0x1e: confirmation( c, in, out ); break;
            default: break;
            }
            compare_store( "after request" );
            cccd_callbacks();
        }

        // C01 (b), (c)
        void framing( int c, const bytes& in, const bytes& out, std::size_t given )
        {
            const std::uint8_t op = in[ 0 ];
            require( out.size() <= given && static_cast< int >( out.size() ) <= mtu_before, "c01.size", "response of ", out.size(),
                " bytes exceeds the buffer (", given, ") or the negotiated MTU (", mtu_before, ") for request ", verif::hex( in ) );
            static const std::uint8_t requests[] = { 0x02, 0x04, 0x06, 0x08, 0x0a, 0x0c, 0x0e, 0x10, 0x12, 0x16, 0x18 };
            const bool is_request = std::find( std::begin( requests ), std::end( requests ), op ) != std::end( requests );
            if ( is_request )
            {
                require( !out.empty() && ( out[ 0 ] == op + 1 || is_error( out, op ) ), "c01.framing", "request ", verif::hex( in ),
                    " must get response opcode ", int( op + 1 ), " or an Error Response naming it, got ", verif::hex( out ) );
                return;
            }
            const bool command_flag = ( op & 0x40 ) != 0;
            const bool defined_cmd  = op == 0x52 || op == 0xd2;
            if ( command_flag )
            {
                if ( !defined_cmd && ( excl_cmd_error || !enabled( "c01.no-response" ) ) )
                {
                    rep_.excluded = true;   // open finding: undefined opcode with command flag gets an Error Response
                    return;
                }
                require_sig( out.empty(), "c01.no-response", defined_cmd ? "cmd=defined" : "cmd=undefined", "PDU ", verif::hex( in ),
                    " has the command flag set and must not be answered, got ", verif::hex( out ) );
                return;
            }
            if ( op == 0x1e && in.size() == 1 )
            {
                require( out.empty(), "c01.no-response", "a Handle Value Confirmation must not be answered, got ", verif::hex( out ) );
                return;
            }
            if ( op == 0x1b || op == 0x1d || op == 0x01 )
            {
                require( out.empty(), "c01.no-response", "client sent ", op == 0x01 ? "Error Response" : "notification/indication", " ",
                    verif::hex( in ), " must not be answered, got ", verif::hex( out ) );
                return;
            }
            if ( op == 0x1e )
                return;  // wrong length confirmation: C11
            // response opcodes sent by a client and undefined request opcodes: an Error Response naming the opcode, or silence
            require( out.empty() || is_error( out, op ), "c01.framing", "PDU ", verif::hex( in ), " may only be answered by an Error Response naming it, got ",
                verif::hex( out ) );
        }

        int mtu_before = 23;   // negotiated MTU when the request was handed to the server
        int lim        = 23;   // min( buffer given to the server, negotiated MTU ) for the running request

        // C05: no protected value may appear in anything sent over an unencrypted link
        void leak_check( int c, const bytes& out, const char* what )
        {
            if ( con[ c ].sec == 2 || out.size() < 4 )
                return;
            for ( std::size_t ci = 0; ci != db.chrs.size(); ++ci )
            {
                const Chr& ch = db.chrs[ ci ];
                if ( ch.enc != 1 )
                    continue;
                const bytes v = chr_value( ch );
                if ( v.size() < 4 || ( ch.vk != V_VAR && ch.vk != V_HBLOB && ch.vk != V_HRAW && ch.vk != V_HRDONLY ) )
                    continue;
                for ( std::size_t i = 0; i + 4 <= v.size(); ++i )
                {
                    // constant runs (00 00 00 00 ...) say nothing
                    if ( v[ i ] == v[ i + 1 ] && v[ i ] == v[ i + 2 ] && v[ i ] == v[ i + 3 ] )
                        continue;
                    auto pos = std::search( out.begin(), out.end(), v.begin() + i, v.begin() + i + 4 );
                    require( pos == out.end(), "c05.leak", what, " ", verif::hex( out ), " on an unencrypted link contains bytes of the protected characteristic ", ci,
                        " (value ", verif::hex( v ), ")" );
                }
            }
        }

        // every bound variable / handler store equals the reference
        void compare_store( const char* when )
        {
            for ( int v = 0; v != db.n_vars; ++v )
            {
                const bytes now = srv.get_var( v );
                require( now == store[ v ], "c06.store", when, ": variable ", v, " is ", verif::hex( now ), " but the reference says ", verif::hex( store[ v ] ) );
            }
        }

        void cccd_callbacks()
        {
            // handled in write(): expected number of callbacks is compared there
        }

        // ------------------------------------------------------------------------------------ C08
        void exchange_mtu( int c, const bytes& in, const bytes& out )
        {
            if ( in.size() == 3 && rd16( &in[ 1 ] ) >= 23 )
            {
                bytes exp{ 0x03 };
                push16( exp, static_cast< std::uint16_t >( db.max_mtu ) );
                require( out == exp, "c08.exchange", "valid Exchange MTU ", verif::hex( in ), " must be answered with ", verif::hex( exp ), ", got ", verif::hex( out ) );
                con[ c ].client_mtu = rd16( &in[ 1 ] );
            }
            else
            {
                require( is_error( out, 0x02 ), "c08.exchange", "invalid Exchange MTU ", verif::hex( in ), " must be rejected, got ", verif::hex( out ) );
            }
            require( srv.negotiated_mtu( c ) == mtu( c ), "c08.mtu", "negotiated MTU is ", srv.negotiated_mtu( c ), " but min(server max ", db.max_mtu,
                ", last valid client MTU ", con[ c ].client_mtu, ") = ", mtu( c ) );
        }

        // ------------------------------------------------------------------------------------ C02
        // handles of attributes in [start, end]
        std::vector< int > in_range( std::uint16_t start, std::uint16_t end ) const
        {
            std::vector< int > r;
            for ( std::size_t i = 0; i != db.attrs.size(); ++i )
                if ( db.attrs[ i ].handle >= start && db.attrs[ i ].handle <= end )
                    r.push_back( static_cast< int >( i ) );
            return r;
        }

        bool range_ok( const bytes& in, const bytes& out, std::uint8_t op, std::size_t a, std::size_t b, std::uint16_t& start, std::uint16_t& end )
        {
            if ( in.size() != a && in.size() != b )
            {
                require( is_error( out, op ), "c01.framing", "wrong sized request ", verif::hex( in ), " must be rejected, got ", verif::hex( out ) );
                return false;
            }
            start = rd16( &in[ 1 ] );
            end   = rd16( &in[ 3 ] );
            if ( start == 0 || start > end )
            {
                require( is_error( out, op ), "c02.range", "request with invalid range ", verif::hex( in ), " must be rejected, got ", verif::hex( out ) );
                return false;
            }
            return true;
        }

        // returns the handles reported (for the walk)
        std::vector< std::uint16_t > last_reported;

        void find_information( int, const bytes& in, const bytes& out )
        {
            last_reported.clear();
            std::uint16_t start, end;
            if ( !range_ok( in, out, 0x04, 5, 5, start, end ) )
                return;
            const auto M = in_range( start, end );
            if ( M.empty() )
            {
                require( is_error_code( out, 0x04, 0x0a ), "c02.not-found", "Find Information ", verif::hex( in ), ": no attribute in range, expected Attribute Not Found, got ",
                    verif::hex( out ) );
                return;
            }
            require( !is_error( out, 0x04 ), "c02.not-found", "Find Information ", verif::hex( in ), ": attributes exist in the range (first handle ",
                db.attrs[ M[ 0 ] ].handle, ") but got ", verif::hex( out ) );
            require( out.size() >= 2 && ( out[ 1 ] == 1 || out[ 1 ] == 2 ), "c02.format", "Find Information Response with bad format: ", verif::hex( out ) );
            const std::size_t us = out[ 1 ] == 1 ? 2 : 16;
            require( ( out.size() - 2 ) % ( 2 + us ) == 0 && out.size() > 2, "c02.format", "Find Information Response is not a whole number (>= 1) of tuples: ", verif::hex( out ) );
            std::uint16_t prev = 0;
            std::size_t   mi   = 0;
            for ( std::size_t p = 2; p < out.size(); p += 2 + us )
            {
                const std::uint16_t h = rd16( &out[ p ] );
                require( h >= start && h <= end, "c02.in-range", "Find Information ", verif::hex( in ), " returned handle ", h, " outside of the range" );
                require( h > prev, "c02.order", "Find Information returned handles not strictly ascending: ", verif::hex( out ) );
                prev         = h;
                const int ai = attr_at( h );
                require( ai >= 0, "c02.in-range", "Find Information returned handle ", h, " which is no attribute of the database" );
                require( db.attrs[ ai ].type == bytes( out.begin() + p + 2, out.begin() + p + 2 + us ), "c02.type", "Find Information: handle ", h, " has type ",
                    verif::hex( db.attrs[ ai ].type ), " but the response says ", verif::hex( &out[ p + 2 ], us ) );
                // prefix rule: nothing below h may be skipped
                while ( mi < M.size() && db.attrs[ M[ mi ] ].handle < h )
                {
                    skipped( "Find Information", in, db.attrs[ M[ mi ] ].handle, db.attrs[ M[ mi ] ].type.size() != us );
                    ++mi;
                }
                ++mi;
                last_reported.push_back( h );
            }
        }

        void skipped( const char* what, const bytes& in, std::uint16_t handle, bool other_size )
        {
            if ( ( other_size && excl_skip ) || !enabled( "c02.skipped" ) )
            {
                rep_.excluded = true;
                skipped_known.insert( handle );
                return;
            }
            require_sig( false, "c02.skipped", other_size ? "skip=other-size" : "skip=same-size", what, " ", verif::hex( in ), " skipped the matching attribute with handle ",
                handle, ": a continuation from the last returned handle will never find it" );
        }
        std::set< std::uint16_t > skipped_known;

        // tuple size class of an attribute in a Read By Type response (value length)
        void read_by_type( int c, const bytes& in, const bytes& out )
        {
            last_reported.clear();
            std::uint16_t start, end;
            if ( !range_ok( in, out, 0x08, 7, 21, start, end ) )
                return;
            const bytes        type = norm_uuid( bytes( in.begin() + 5, in.end() ) );
            std::vector< int > M;
            for ( int ai : in_range( start, end ) )
                if ( db.attrs[ ai ].type == type )
                    M.push_back( ai );
            if ( M.empty() )
            {
                require( is_error_code( out, 0x08, 0x0a ), "c02.not-found", "Read By Type ", verif::hex( in ), ": no matching attribute in range, expected Attribute Not Found, got ",
                    verif::hex( out ) );
                return;
            }
            // the first matching attribute decides between a response and an error
            bytes             v0;
            const read_status s0 = read_attr( M[ 0 ], c, v0 );
            const std::uint16_t h0 = db.attrs[ M[ 0 ] ].handle;
            if ( s0 == RS_UNKNOWN )
                return;
            if ( s0 == RS_PROTECTED )
            {
                // bluetoe may also skip it and answer with later attributes; what must not happen is that the value shows up
                if ( is_error( out, 0x08 ) )
                {
                    touched_protected_unencrypted = true;
                    if ( out[ 4 ] != 0x0a )
                        require_protected_error( out, 0x08, c, h0, "Read By Type" );
                    return;
                }
            }
            else if ( s0 == RS_NOT_READABLE )
            {
                if ( is_error( out, 0x08 ) )
                    return;
            }
            else
            {
                require( !is_error( out, 0x08 ), "c02.not-found", "Read By Type ", verif::hex( in ), ": the readable matching attribute ", h0, " exists but got ", verif::hex( out ) );
            }
            if ( is_error( out, 0x08 ) )
            {
                // all matching attributes unreadable for this link
                for ( int ai : M )
                {
                    bytes v;
                    require( read_attr( ai, c, v ) != RS_OK, "c02.not-found", "Read By Type ", verif::hex( in ), ": readable matching attribute ", db.attrs[ ai ].handle,
                        " exists but got ", verif::hex( out ) );
                }
                return;
            }
            require( out.size() >= 4 && out[ 0 ] == 0x09 && out[ 1 ] >= 2 && ( out.size() - 2 ) % out[ 1 ] == 0, "c02.format", "malformed Read By Type Response ",
                verif::hex( out ) );
            const std::size_t L    = out[ 1 ];
            std::uint16_t     prev = 0;
            std::size_t       mi   = 0;
            for ( std::size_t p = 2; p < out.size(); p += L )
            {
                const std::uint16_t h = rd16( &out[ p ] );
                require( h >= start && h <= end, "c02.in-range", "Read By Type ", verif::hex( in ), " returned handle ", h, " outside of the range" );
                require( h > prev, "c02.order", "Read By Type returned handles not strictly ascending: ", verif::hex( out ) );
                prev         = h;
                const int ai = attr_at( h );
                require( ai >= 0 && db.attrs[ ai ].type == type, "c02.type", "Read By Type ", verif::hex( in ), " returned handle ", h, " whose type does not match" );
                bytes             v;
                const read_status s = read_attr( ai, c, v );
                if ( s == RS_UNKNOWN )
                    continue;
                if ( s == RS_PROTECTED )
                {
                    touched_protected_unencrypted = true;
                    require( false, "c05.read-by-type", "Read By Type ", verif::hex( in ), " returned the protected attribute ", h, " on an unencrypted link: ", verif::hex( out ) );
                }
                require( s == RS_OK, "c06.permission", "Read By Type ", verif::hex( in ), " returned attribute ", h, " which is not readable" );
                const std::size_t n = L - 2;
                require( n <= v.size() || ( n == v.size() ), "c06.read-value", "Read By Type returned ", n, " value bytes for attribute ", h, " whose value has ", v.size() );
                require( n == v.size() || static_cast< int >( n ) == std::min( 253, lim - 4 ), "c06.read-value", "Read By Type: value of attribute ", h, " has ", v.size(),
                    " bytes, tuple carries ", n, " (only a value longer than the room may be cut)" );
                require( std::equal( out.begin() + p + 2, out.begin() + p + L, v.begin() ), "c06.read-value", "Read By Type: value of attribute ", h, " is ", verif::hex( v ),
                    " but the response carries ", verif::hex( &out[ p + 2 ], n ) );
                while ( mi < M.size() && db.attrs[ M[ mi ] ].handle < h )
                {
                    bytes vv;
                    if ( read_attr( M[ mi ], c, vv ) == RS_OK )
                        skipped( "Read By Type", in, db.attrs[ M[ mi ] ].handle, std::min< std::size_t >( vv.size(), std::min( 253, lim - 4 ) ) != n );
                    ++mi;
                }
                ++mi;
                last_reported.push_back( h );
            }
        }

        std::vector< int > primary_in_range( std::uint16_t start, std::uint16_t end, const bytes* uuid ) const
        {
            std::vector< int > r;
            for ( std::size_t s = 0; s != db.svcs.size(); ++s )
            {
                const std::uint16_t h = db.attrs[ db.svcs[ s ].first_attr ].handle;
                if ( db.svcs[ s ].primary && h >= start && h <= end && ( !uuid || *uuid == db.svcs[ s ].uuid ) )
                    r.push_back( static_cast< int >( s ) );
            }
            return r;
        }

        void read_by_group_type( int, const bytes& in, const bytes& out )
        {
            last_reported.clear();
            std::uint16_t start, end;
            if ( !range_ok( in, out, 0x10, 7, 21, start, end ) )
                return;
            const bytes type = norm_uuid( bytes( in.begin() + 5, in.end() ) );
            if ( type != bytes{ 0x00, 0x28 } )
            {
                require( is_error( out, 0x10 ), "c02.group-type", "Read By Group Type for a type that is no grouping type / not primary service must be rejected: ", verif::hex( in ),
                    " got ", verif::hex( out ) );
                return;
            }
            // the 128 bit form of <<Primary Service>> is hardly ever used by a client; rejecting it is tolerated
            if ( in.size() == 21 && is_error( out, 0x10 ) )
                return;
            const auto M = primary_in_range( start, end, nullptr );
            if ( M.empty() )
            {
                require( is_error_code( out, 0x10, 0x0a ), "c03.not-found", "Read By Group Type ", verif::hex( in ), ": no primary service starts in the range, expected Attribute Not Found, got ",
                    verif::hex( out ) );
                return;
            }
            require( !is_error( out, 0x10 ), "c03.not-found", "Read By Group Type ", verif::hex( in ), ": primary service at handle ", db.attrs[ db.svcs[ M[ 0 ] ].first_attr ].handle,
                " lies in the range but got ", verif::hex( out ) );
            require( out.size() >= 8 && ( out[ 1 ] == 6 || out[ 1 ] == 20 ) && ( out.size() - 2 ) % out[ 1 ] == 0, "c02.format", "malformed Read By Group Type Response ",
                verif::hex( out ) );
            const std::size_t L    = out[ 1 ];
            std::uint16_t     prev = 0;
            std::size_t       mi   = 0;
            for ( std::size_t p = 2; p < out.size(); p += L )
            {
                const std::uint16_t h = rd16( &out[ p ] ), e = rd16( &out[ p + 2 ] );
                require( h >= start && h <= end, "c02.in-range", "Read By Group Type ", verif::hex( in ), " returned group handle ", h, " outside of the range" );
                require( h > prev, "c02.order", "Read By Group Type returned handles not strictly ascending: ", verif::hex( out ) );
                prev   = h;
                int sv = -1;
                for ( std::size_t s = 0; s != db.svcs.size(); ++s )
                    if ( db.attrs[ db.svcs[ s ].first_attr ].handle == h )
                        sv = static_cast< int >( s );
                require( sv >= 0, "c03.exact", "Read By Group Type returned handle ", h, " which is no service declaration" );
                require( db.svcs[ sv ].primary, "c03.secondary", "Read By Group Type <<Primary Service>> reported the secondary service at handle ", h, ": ", verif::hex( out ) );
                require( e == db.attrs[ db.svcs[ sv ].last_attr ].handle, "c03.group-end", "service at ", h, " ends at handle ", db.attrs[ db.svcs[ sv ].last_attr ].handle,
                    " but the response says ", e );
                require( bytes( out.begin() + p + 4, out.begin() + p + L ) == db.svcs[ sv ].uuid, "c03.uuid", "service at ", h, " has UUID ", verif::hex( db.svcs[ sv ].uuid ),
                    " but the response says ", verif::hex( &out[ p + 4 ], L - 4 ) );
                while ( mi < M.size() && db.attrs[ db.svcs[ M[ mi ] ].first_attr ].handle < h )
                {
                    require( false, "c03.skipped", "Read By Group Type ", verif::hex( in ), " skipped the primary service at handle ",
                        db.attrs[ db.svcs[ M[ mi ] ].first_attr ].handle );
                    ++mi;
                }
                ++mi;
                last_reported.push_back( e );
            }
            require( rd16( &out[ 2 ] ) == db.attrs[ db.svcs[ M[ 0 ] ].first_attr ].handle, "c03.skipped", "Read By Group Type ", verif::hex( in ), " must start with the first primary service in range (",
                db.attrs[ db.svcs[ M[ 0 ] ].first_attr ].handle, "), got ", verif::hex( out ) );
        }

        void find_by_type_value( int, const bytes& in, const bytes& out )
        {
            last_reported.clear();
            if ( in.size() < 7 )
            {
                require( is_error( out, 0x06 ), "c01.framing", "short Find By Type Value must be rejected: ", verif::hex( in ), " got ", verif::hex( out ) );
                return;
            }
            const std::uint16_t start = rd16( &in[ 1 ] ), end = rd16( &in[ 3 ] );
            if ( start == 0 || start > end )
            {
                require( is_error( out, 0x06 ), "c02.range", "request with invalid range ", verif::hex( in ), " must be rejected, got ", verif::hex( out ) );
                return;
            }
            if ( rd16( &in[ 5 ] ) != 0x2800 )
                return;  // only primary service discovery is covered by the statement
            const bytes value( in.begin() + 7, in.end() );
            if ( value.size() != 2 && value.size() != 16 )
            {
                // no service UUID has this size: Attribute Not Found or Invalid PDU, never a match
                require( is_error( out, 0x06 ), "c03.not-found", "Find By Type Value ", verif::hex( in ), " with a value that is no UUID must be rejected, got ", verif::hex( out ) );
                return;
            }
            const auto  M = primary_in_range( start, end, &value );
            if ( M.empty() )
            {
                require( is_error_code( out, 0x06, 0x0a ), "c03.not-found", "Find By Type Value ", verif::hex( in ), ": no primary service with that UUID starts in the range, expected Attribute Not Found, got ",
                    verif::hex( out ) );
                return;
            }
            require( !is_error( out, 0x06 ), "c03.not-found", "Find By Type Value ", verif::hex( in ), ": a matching primary service exists at ",
                db.attrs[ db.svcs[ M[ 0 ] ].first_attr ].handle, " but got ", verif::hex( out ) );
            require( out.size() >= 5 && ( out.size() - 1 ) % 4 == 0, "c02.format", "malformed Find By Type Value Response ", verif::hex( out ) );
            std::size_t mi = 0;
            for ( std::size_t p = 1; p < out.size(); p += 4, ++mi )
            {
                const std::uint16_t h = rd16( &out[ p ] ), e = rd16( &out[ p + 2 ] );
                require( mi < M.size(), "c03.exact", "Find By Type Value ", verif::hex( in ), " returned more groups than matching primary services: ", verif::hex( out ) );
                const Svc& s = db.svcs[ M[ mi ] ];
                require( h == db.attrs[ s.first_attr ].handle, "c03.exact", "Find By Type Value ", verif::hex( in ), ": group ", mi, " should be the service at ",
                    db.attrs[ s.first_attr ].handle, " but the response says ", h, " (", verif::hex( out ), ")" );
                require( e == db.attrs[ s.last_attr ].handle, "c03.group-end", "Find By Type Value: service at ", h, " ends at ", db.attrs[ s.last_attr ].handle,
                    " but the response says ", e );
                last_reported.push_back( e );
            }
        }

        // ------------------------------------------------------------------------------------ C05 / C06 reads
        void read( int c, const bytes& in, const bytes& out )
        {
            if ( in.size() != 3 )
            {
                require( is_error( out, 0x0a ), "c01.framing", "wrong sized Read Request must be rejected: ", verif::hex( in ), " got ", verif::hex( out ) );
                return;
            }
            const std::uint16_t h  = rd16( &in[ 1 ] );
            const int           ai = attr_at( h );
            if ( ai < 0 )
            {
                require( is_error( out, 0x0a ), "c04.access", "Read Request on the non-existing handle ", h, " must be rejected, got ", verif::hex( out ) );
                return;
            }
            bytes             v;
            const read_status s = read_attr( ai, c, v );
            if ( s == RS_UNKNOWN )
                return;
            if ( s == RS_PROTECTED )
                return require_protected_error( out, 0x0a, c, h, "Read Request" );
            if ( s == RS_NOT_READABLE )
            {
                require_sig( is_error( out, 0x0a ), "c06.permission", verif::cat( "vk=", db.chrs[ db.attrs[ ai ].chr ].vk ), "Read Request on handle ", h,
                    " (value kind ", db.chrs[ db.attrs[ ai ].chr ].vk, ", not readable) must be rejected, got ", verif::hex( out ) );
                return;
            }
            bytes exp{ 0x0b };
            exp.insert( exp.end(), v.begin(), v.begin() + std::min< std::size_t >( v.size(), lim - 1 ) );
            const char* oracle = db.attrs[ ai ].kind == A_VALUE ? "c06.read-value" : ( db.attrs[ ai ].kind == A_CCCD ? "c09.read-back" : "c04.attribute-value" );
            require( out == exp, oracle, "Read Request on handle ", h, " (attribute kind ", db.attrs[ ai ].kind, ") must return ", verif::hex( exp ), ", got ", verif::hex( out ) );
        }

        void read_blob( int c, const bytes& in, const bytes& out )
        {
            if ( in.size() != 5 )
            {
                require( is_error( out, 0x0c ), "c01.framing", "wrong sized Read Blob Request must be rejected: ", verif::hex( in ), " got ", verif::hex( out ) );
                return;
            }
            const std::uint16_t h = rd16( &in[ 1 ] ), off = rd16( &in[ 3 ] );
            const int           ai = attr_at( h );
            if ( ai < 0 )
            {
                require( is_error( out, 0x0c ), "c04.access", "Read Blob Request on the non-existing handle ", h, " must be rejected, got ", verif::hex( out ) );
                return;
            }
            bytes             v;
            const read_status s = read_attr( ai, c, v );
            if ( s == RS_UNKNOWN )
                return;
            if ( s == RS_PROTECTED )
                return require_protected_error( out, 0x0c, c, h, "Read Blob Request" );
            if ( s == RS_NOT_READABLE )
            {
                require( is_error( out, 0x0c ), "c06.permission", "Read Blob Request on the not readable handle ", h, " must be rejected, got ", verif::hex( out ) );
                return;
            }
            const bool strict = long_readable( ai );
            if ( off > v.size() )
            {
                if ( strict )
                    require( is_error_code( out, 0x0c, 0x07 ), "c06.invalid-offset", "Read Blob on handle ", h, " at offset ", off, " past the value (", v.size(),
                        " bytes) must return Invalid Offset, got ", verif::hex( out ) );
                else
                    require( is_error( out, 0x0c ), "c06.invalid-offset", "Read Blob on handle ", h, " at offset ", off, " past the value must be rejected, got ", verif::hex( out ) );
                return;
            }
            bytes exp{ 0x0d };
            exp.insert( exp.end(), v.begin() + off, v.begin() + off + std::min< std::size_t >( v.size() - off, lim - 1 ) );
            if ( strict )
                require( out == exp, "c06.read-value", "Read Blob on handle ", h, " offset ", off, " must return ", verif::hex( exp ), ", got ", verif::hex( out ) );
            else
                require( out == exp || is_error( out, 0x0c ), "c06.read-value", "Read Blob on handle ", h, " offset ", off, " must return ", verif::hex( exp ),
                    " or an error (attribute not long), got ", verif::hex( out ) );
        }

        void read_multiple( int c, const bytes& in, const bytes& out )
        {
            if ( in.size() < 5 || in.size() % 2 == 0 )
            {
                require( is_error( out, 0x0e ), "c01.framing", "wrong sized Read Multiple Request must be rejected: ", verif::hex( in ), " got ", verif::hex( out ) );
                return;
            }
            bytes exp{ 0x0f };
            for ( std::size_t p = 1; p < in.size(); p += 2 )
            {
                const std::uint16_t h  = rd16( &in[ p ] );
                const int           ai = attr_at( h );
                bytes               v;
                const read_status   s = ai < 0 ? RS_NOT_READABLE : read_attr( ai, c, v );
                if ( s == RS_UNKNOWN )
                    return;
                if ( s != RS_OK )
                {
                    if ( s == RS_PROTECTED )
                    {
                        touched_protected_unencrypted = true;
                        require( is_error( out, 0x0e ), "c05.read-multiple", "Read Multiple ", verif::hex( in ), " includes the protected handle ", h,
                            " on an unencrypted link and must be rejected, got ", verif::hex( out ) );
                        if ( rd16( &out[ 2 ] ) == h )
                            require_protected_error( out, 0x0e, c, h, "Read Multiple" );
                    }
                    else
                        require( is_error( out, 0x0e ), "c06.permission", "Read Multiple ", verif::hex( in ), " includes handle ", h,
                            " which can not be read and must be rejected, got ", verif::hex( out ) );
                    return;
                }
                exp.insert( exp.end(), v.begin(), v.end() );
            }
            if ( static_cast< int >( exp.size() ) > lim )
                exp.resize( lim );
            require( out == exp, "c06.read-value", "Read Multiple ", verif::hex( in ), " must return ", verif::hex( exp ), ", got ", verif::hex( out ) );
        }

        // ------------------------------------------------------------------------------------ writes
        // result of applying a write of `data` at `offset` to attribute ai on connection c
        enum write_status { WS_OK, WS_PROTECTED, WS_NOT_PERMITTED, WS_INVALID, WS_UNKNOWN, WS_EITHER };

        // `apply`: change the reference; otherwise only classify
        write_status write_attr( int ai, int c, int offset, const bytes& data, bool apply )
        {
            const Attr& a = db.attrs[ ai ];
            if ( a.kind == A_CCCD )
            {
                const Chr& ch = db.chrs[ a.chr ];
                if ( enc_unknown( ch ) && con[ c ].sec != 2 )
                    return WS_UNKNOWN;
                if ( protected_now( ch, c ) )
                    return WS_PROTECTED;
                if ( offset == 0 && data.size() == 2 )
                {
                    if ( apply )
                        con[ c ].cccd[ a.chr ] = data[ 0 ] & 0x03;
                    return WS_OK;
                }
                if ( offset + data.size() > 2 )
                    return WS_INVALID;
                return WS_EITHER;  // partial CCCD writes: not specified by the statement
            }
            if ( a.kind != A_VALUE )
                return WS_NOT_PERMITTED;
            const Chr& ch = db.chrs[ a.chr ];
            if ( enc_unknown( ch ) && con[ c ].sec != 2 )
                return WS_UNKNOWN;
            if ( protected_now( ch, c ) )
                return WS_PROTECTED;
            if ( !writable( ch ) )
                return WS_NOT_PERMITTED;
            bytes& st = store[ ch.var ];
            switch ( ch.vk )
            {
            case V_VAR:
                if ( offset > ch.size || offset + static_cast< int >( data.size() ) > ch.size )
                    return WS_INVALID;
                if ( apply )
                    std::copy( data.begin(), data.end(), st.begin() + offset );
                return WS_OK;
            case V_HBLOB:
                if ( offset > static_cast< int >( st.size() ) || offset + static_cast< int >( data.size() ) > ch.size )
                    return WS_INVALID;
                if ( apply && !data.empty() )
                {
                    if ( st.size() < offset + data.size() )
                        st.resize( offset + data.size() );
                    std::copy( data.begin(), data.end(), st.begin() + offset );
                }
                return WS_OK;
            case V_HRAW:
            case V_HWRONLY:
                if ( offset != 0 )
                    return WS_INVALID;
                if ( static_cast< int >( data.size() ) > ch.size )
                    return WS_INVALID;
                if ( apply )
                    st = data;
                return WS_OK;
            default: break;
            }
            return WS_NOT_PERMITTED;
        }

        void write( int c, const bytes& in, const bytes& out, bool command )
        {
            const std::uint8_t op = in[ 0 ];
            if ( in.size() < 3 )
            {
                if ( !command )
                    require( is_error( out, op ), "c01.framing", "short Write Request must be rejected: ", verif::hex( in ), " got ", verif::hex( out ) );
                return;
            }
            const std::uint16_t h  = rd16( &in[ 1 ] );
            const int           ai = attr_at( h );
            const bytes         data( in.begin() + 3, in.end() );
            if ( ai < 0 )
            {
                if ( !command )
                    require( is_error( out, op ), "c04.access", "Write Request on the non-existing handle ", h, " must be rejected, got ", verif::hex( out ) );
                return;
            }
            const Attr&       a         = db.attrs[ ai ];
            const bool        is_cccd   = a.kind == A_CCCD;
            const int         old_cccd  = is_cccd ? con[ c ].cccd[ a.chr ] : 0;
            const write_status s        = write_attr( ai, c, 0, data, false );
            const bool        accepted  = !command && out.size() == 1 && out[ 0 ] == 0x13;
            switch ( s )
            {
            case WS_UNKNOWN:
                resync_store();
                return;
            case WS_PROTECTED:
                touched_protected_unencrypted = true;
                if ( !command )
                    require_protected_error( out, op, c, h, "Write Request" );
                // store comparison (after every request) proves nothing was modified; CCCD checked by read back
                if ( is_cccd )
                    cccd_unchanged_check( c, a.chr, old_cccd );
                break;
            case WS_NOT_PERMITTED:
            case WS_INVALID:
                if ( !command )
                    require( is_error( out, op ), a.kind == A_VALUE ? "c06.permission" : "c04.access", "Write Request ", verif::hex( in ), " on handle ", h,
                        s == WS_INVALID ? " with an invalid length/offset" : " which is not writable", " must be rejected, got ", verif::hex( out ) );
                break;
            case WS_EITHER:
                if ( accepted || command )
                    resync_cccd( c, a.chr );
                break;
            case WS_OK: {
                const Chr& ch = db.chrs[ a.chr ];
                if ( command )
                {
                    // a Write Command is not answered; it has to be applied when the characteristic declares Write Without Response
                    if ( is_cccd || ch.wwr || ch.only_wwr )
                        write_attr( ai, c, 0, data, true );
                    else
                        maybe_applied( ai, c, data );
                }
                else if ( ch.only_wwr && !is_cccd )
                {
                    require( accepted || is_error( out, op ), "c01.framing", "" );
                    if ( accepted )
                        write_attr( ai, c, 0, data, true );
                }
                else
                {
                    require( accepted, is_cccd ? "c09.write" : "c06.write", "Write Request ", verif::hex( in ), " on the writable handle ", h, " must be accepted, got ",
                        verif::hex( out ) );
                    write_attr( ai, c, 0, data, true );
                }
                if ( is_cccd )
                    cccd_written( c, a.chr, old_cccd );
            }
            break;
            }
        }

        // a write whose effect the statement leaves open: follow the server if it applied exactly the bytes
        void maybe_applied( int ai, int c, const bytes& data )
        {
            const Chr& ch  = db.chrs[ db.attrs[ ai ].chr ];
            const bytes now = srv.get_var( ch.var );
            if ( now != store[ ch.var ] )
                write_attr( ai, c, 0, data, true );
        }

        void resync_store()
        {
            for ( int v = 0; v != db.n_vars; ++v )
                store[ v ] = srv.get_var( v );
        }

        // ------------------------------------------------------------------------------------ C09
        std::size_t expected_cccd_calls = 0;

        int read_cccd( int c, int chr )
        {
            // read back through ATT (costs nothing on the model side)
            const std::uint16_t h = db.attrs[ db.chrs[ chr ].cccd_attr ].handle;
            bytes               in{ 0x0a, static_cast< std::uint8_t >( h & 0xff ), static_cast< std::uint8_t >( h >> 8 ) };
            bytes               out = raw( c, in );
            if ( out.size() == 3 && out[ 0 ] == 0x0b )
                return rd16( &out[ 1 ] );
            return -1;
        }

        void resync_cccd( int c, int chr )
        {
            const int v = read_cccd( c, chr );
            if ( v >= 0 )
                con[ c ].cccd[ chr ] = v & 3;
            expected_cccd_calls = srv.cccd_calls().size();
        }

        void cccd_unchanged_check( int c, int chr, int old )
        {
            static_cast< void >( c ); static_cast< void >( chr ); static_cast< void >( old );
            // the value can not be read back while unencrypted; it is compared once the link is encrypted (all_cccds)
        }

        void cccd_written( int c, int chr, int old )
        {
            if ( db.cccd_callback )
            {
                if ( con[ c ].cccd[ chr ] != old )
                    ++expected_cccd_calls;
                require( srv.cccd_calls().size() == expected_cccd_calls, "c09.callback", "the subscription-changed callback was invoked ", srv.cccd_calls().size(),
                    " times, expected ", expected_cccd_calls, " (value of characteristic ", chr, " on connection ", c, " went from ", old, " to ", con[ c ].cccd[ chr ], ")" );
            }
            all_cccds();
        }

        // every CCCD cell of every connection reads back what was last written
        void all_cccds()
        {
            for ( int c = 0; c != 3; ++c )
            {
                if ( !con[ c ].connected )
                    continue;
                for ( std::size_t ch = 0; ch != db.chrs.size(); ++ch )
                {
                    if ( db.chrs[ ch ].cccd_attr < 0 )
                        continue;
                    if ( db.chrs[ ch ].enc != 0 && con[ c ].sec != 2 )
                        continue;
                    const int v = read_cccd( c, static_cast< int >( ch ) );
                    require( v == con[ c ].cccd[ ch ], "c09.cells", "CCCD of characteristic ", ch, " on connection ", c, " reads ", v, " but was last written as ",
                        con[ c ].cccd[ ch ] );
                }
            }
        }

        // ------------------------------------------------------------------------------------ C07
        // octets of the queue taken by the queued writes: at least value + handle + offset, at most what the documentation of
        // shared_write_queue budgets per element (value + 7)
        int queue_used( int overhead ) const
        {
            int n = 0;
            for ( auto& e : queue )
                n += static_cast< int >( e.data.size() ) + overhead;
            return n;
        }

        void prepare_write( int c, const bytes& in, const bytes& out )
        {
            if ( db.queue_size == 0 )
            {
                require( is_error( out, 0x16 ), "c07.no-queue", "Prepare Write without a write queue must be rejected, got ", verif::hex( out ) );
                return;
            }
            if ( in.size() < 5 )
            {
                require( is_error( out, 0x16 ), "c01.framing", "short Prepare Write Request must be rejected: ", verif::hex( in ), " got ", verif::hex( out ) );
                return;
            }
            const std::uint16_t h = rd16( &in[ 1 ] ), off = rd16( &in[ 3 ] );
            const int           ai = attr_at( h );
            const bytes         data( in.begin() + 5, in.end() );
            if ( ai < 0 )
            {
                require( is_error( out, 0x16 ), "c04.access", "Prepare Write on the non-existing handle ", h, " must be rejected, got ", verif::hex( out ) );
                return;
            }
            // "a prepared write is accepted exactly when a Write Request to the same attribute on the same connection would be permitted"
            const write_status s = write_attr( ai, c, 0, bytes(), false );
            if ( s == WS_UNKNOWN )
            {
                if ( out.size() >= 1 && out[ 0 ] == 0x17 )
                {
                    queue_owner = c;
                    queue.push_back( QueueEntry{ ai, off, data } );
                }
                return;
            }
            if ( s == WS_PROTECTED )
            {
                touched_protected_unencrypted = true;
                require_protected_error( out, 0x16, c, h, "Prepare Write" );
                return;
            }
            if ( s == WS_NOT_PERMITTED )
            {
                require( is_error( out, 0x16 ), "c07.permission", "Prepare Write on handle ", h, " which is not writable must be rejected, got ", verif::hex( out ) );
                return;
            }
            if ( queue_owner >= 0 && queue_owner != c )
            {
                require( is_error_code( out, 0x16, 0x09 ), "c07.owner", "connection ", queue_owner, " holds the write queue; Prepare Write from connection ", c,
                    " must be answered with Prepare Queue Full, got ", verif::hex( out ) );
                return;
            }
            if ( is_error_code( out, 0x16, 0x09 ) )
            {
                // must be accepted if there is room even with the documented budget per element
                require( queue_used( 7 ) + static_cast< int >( data.size() ) + 7 > db.queue_size, "c07.room", "Prepare Write of ", data.size(),
                    " bytes rejected with Prepare Queue Full although at most ", queue_used( 7 ), " of ", db.queue_size, " bytes of the queue are used" );
                return;
            }
            if ( queue_used( 4 ) + static_cast< int >( data.size() ) + 4 > db.queue_size )
            {
                // handle, offset and value of the queued writes alone do not fit
                require2( is_error( out, 0x16 ), "c07.room", "c01.queue-overflow", "Prepare Write of ", data.size(), " bytes accepted although the queue (", db.queue_size,
                    " bytes) already holds at least ", queue_used( 4 ), " bytes" );
                return;
            }
            bytes exp = in;
            exp[ 0 ]  = 0x17;
            if ( static_cast< int >( exp.size() ) > lim )
                exp.resize( lim );
            require_sig( out == exp, "c07.accept", verif::cat( "kind=", db.attrs[ ai ].kind, " enc=", db.attrs[ ai ].chr >= 0 ? db.chrs[ db.attrs[ ai ].chr ].enc : 0 ),
                "Prepare Write ", verif::hex( in ), " on handle ", h, " (a Write Request would be permitted, queue free) must be echoed, got ", verif::hex( out ) );
            queue_owner = c;
            queue.push_back( QueueEntry{ ai, off, data } );
        }

        void execute_write( int c, const bytes& in, const bytes& out )
        {
            if ( db.queue_size == 0 )
            {
                require( is_error( out, 0x18 ), "c07.no-queue", "Execute Write without a write queue must be rejected, got ", verif::hex( out ) );
                return;
            }
            if ( in.size() != 2 || in[ 1 ] > 1 )
            {
                require( is_error( out, 0x18 ), "c07.flags", "malformed Execute Write ", verif::hex( in ), " must be rejected, got ", verif::hex( out ) );
                // whether a malformed execute releases the queue is not specified: the model can not follow any further
                if ( queue_owner == c )
                    throw Diverged{ "malformed Execute Write by the owner of the queue: state of the queue is unspecified" };
                return;
            }
            if ( queue_owner == -2 )
            {
                resync_after_unknown_queue( c );
                return;
            }
            if ( queue_owner != c )
            {
                // nothing queued by this client: nothing may change (store comparison), any well formed answer
                require( ( out.size() == 1 && out[ 0 ] == 0x19 ) || is_error( out, 0x18 ), "c01.framing", "" );
                return;
            }
            if ( in[ 1 ] == 0 )
            {
                require( out.size() == 1 && out[ 0 ] == 0x19, "c07.cancel", "Execute Write (cancel) must be answered with an Execute Write Response, got ", verif::hex( out ) );
                queue.clear();
                queue_owner = -1;
                return;
            }
            // apply in order; the first failing entry ends the execution with an error
            bool failed = false;
            for ( auto& e : queue )
            {
                const int          old = db.attrs[ e.attr ].kind == A_CCCD ? con[ c ].cccd[ db.attrs[ e.attr ].chr ] : 0;
                const write_status s   = write_attr( e.attr, c, e.offset, e.data, true );
                if ( s == WS_UNKNOWN || s == WS_EITHER )
                {
                    queue.clear();
                    queue_owner = -1;
                    resync_store();
                    for ( std::size_t ch = 0; ch != db.chrs.size(); ++ch )
                        if ( db.chrs[ ch ].cccd_attr >= 0 )
                            resync_cccd( c, static_cast< int >( ch ) );
                    return;
                }
                if ( s != WS_OK )
                {
                    failed = true;
                    break;
                }
                if ( db.attrs[ e.attr ].kind == A_CCCD && db.cccd_callback && con[ c ].cccd[ db.attrs[ e.attr ].chr ] != old )
                    ++expected_cccd_calls;
            }
            if ( failed )
                require2( is_error( out, 0x18 ), "c07.execute", "c06.execute-invalid-write", "Execute Write with a queued write that can not be applied (invalid offset / length, not permitted) must be answered with an error, got ", verif::hex( out ) );
            else
                require( out.size() == 1 && out[ 0 ] == 0x19, "c07.execute", "Execute Write of ", queue.size(), " applicable queued writes must succeed, got ", verif::hex( out ) );
            queue.clear();
            queue_owner = -1;
            // the store comparison after the request proves "exactly the queued writes, in order"
        }

        void resync_after_unknown_queue( int )
        {
            queue.clear();
            queue_owner = -1;
            resync_store();
        }

        void disconnected( int c )
        {
            if ( queue_owner == c || queue_owner == -2 )
            {
                queue.clear();
                queue_owner = -1;
            }
            con[ c ] = ConnState();
            con[ c ].cccd.assign( db.chrs.size(), 0 );
        }

        // ------------------------------------------------------------------------------------ C10 / C11
        void confirmation( int c, const bytes& in, const bytes& out )
        {
            if ( in.size() == 1 )
            {
                con[ c ].outstanding = false;
                return;
            }
            require( is_error( out, 0x1e ), "c11.wrong-length", "a Handle Value Confirmation with a wrong length (", verif::hex( in ), ") must be rejected, got ",
                verif::hex( out ) );
        }

        // the application requested a notification/indication; result = return value of notify()/indicate()
        void notified( int chr, int kind, int result )
        {
            bool first = true;
            for ( int c = 0; c != 3; ++c )
            {
                if ( !con[ c ].connected )
                    continue;
                const bool was_pending = con[ c ].certain.count( { chr, kind } ) != 0;
                const bool may_pending = con[ c ].maybe.count( { chr, kind } ) != 0 || con[ c ].ghost.count( { chr, kind } ) != 0;
                con[ c ].ghost.erase( { chr, kind } );
                con[ c ].ghost_budget = std::min< int >( con[ c ].ghost_budget, static_cast< int >( con[ c ].ghost.size() ) );
                if ( first )
                {
                    if ( was_pending )
                        require( result == 0, "c10.return", "notify/indicate for characteristic ", chr, " returned ", result, " although the same request is still pending" );
                    else if ( !may_pending )
                        require( result == 1, "c10.return", "notify/indicate for characteristic ", chr, " returned ", result, " although no such request is pending" );
                }
                first = false;
                con[ c ].maybe.insert( { chr, kind } );
                if ( subscribed( c, chr, kind ) && !hidden( c, chr ) )
                    con[ c ].certain.insert( { chr, kind } );
            }
        }

        bool subscribed( int c, int chr, int kind ) const { return ( con[ c ].cccd[ chr ] & ( kind == 0 ? 1 : 2 ) ) != 0; }
        // value can not be sent on this link (encryption) or can not be read
        bool hidden( int c, int chr ) const
        {
            // no_read_access does not hide a value from notifications (documented way to declare a notify-only value)
            const Chr& ch = db.chrs[ chr ];
            return ch.enc != 0 && con[ c ].sec != 2;
        }

        // everything that is not certain to be sendable right now loses its "certain" status when the queue is polled
        void demote( int c )
        {
            for ( auto i = con[ c ].certain.begin(); i != con[ c ].certain.end(); )
            {
                if ( !subscribed( c, i->first, i->second ) || hidden( c, i->first ) )
                    i = con[ c ].certain.erase( i );
                else
                    ++i;
            }
        }

        void output( int c, const bytes& out, std::size_t given )
        {
            ConnState& cs = con[ c ];
            demote( c );
            require( out.size() <= given && static_cast< int >( out.size() ) <= mtu( c ), "c08.notification-size", "outgoing PDU of ", out.size(), " bytes exceeds the negotiated MTU ",
                mtu( c ), " (buffer ", given, "): ", verif::hex( out ) );
            if ( out.empty() )
            {
                bool sendable = false, droppable = false;
                for ( auto& e : cs.maybe )
                {
                    if ( !subscribed( c, e.first, e.second ) || hidden( c, e.first ) )
                        droppable = true;
                    else if ( e.second == 0 || !cs.outstanding )
                        sendable = true;
                }
                // given < 3 can not carry anything
                // an empty poll while something could be sent means: a request that can not be sent was dequeued and dropped
                if ( given >= 3 )
                    require( !sendable || droppable || cs.ghost_budget > 0, "c11.lost", "l2cap_output produced nothing although a request for a subscribed characteristic is pending on connection ", c );
                int moved = 0;
                for ( auto i = cs.maybe.begin(); i != cs.maybe.end(); )
                {
                    if ( !subscribed( c, i->first, i->second ) || hidden( c, i->first ) )
                    {
                        cs.ghost.insert( *i );
                        i = cs.maybe.erase( i );
                        ++moved;
                    }
                    else
                        ++i;
                }
                if ( sendable && given >= 3 )
                    cs.ghost_budget += moved ? moved - 1 : -1;
                else
                    cs.ghost_budget += moved;
                cs.ghost_budget = std::max( 0, std::min< int >( cs.ghost_budget, static_cast< int >( cs.ghost.size() ) ) );
                return;
            }
            leak_check( c, out, "outgoing PDU" );
            require( ( out[ 0 ] == 0x1b || out[ 0 ] == 0x1d ) && out.size() >= 3, "c10.pdu", "unexpected outgoing PDU ", verif::hex( out ) );
            const int           kind = out[ 0 ] == 0x1b ? 0 : 1;
            const std::uint16_t h    = rd16( &out[ 1 ] );
            const int           ai   = attr_at( h );
            require( ai >= 0 && db.attrs[ ai ].kind == A_VALUE, "c10.handle", "outgoing PDU ", verif::hex( out ), " carries handle ", h, " which is no characteristic value" );
            const int  chr = db.attrs[ ai ].chr;
            const Chr& ch  = db.chrs[ chr ];
            require( cs.maybe.count( { chr, kind } ) != 0 || cs.ghost.count( { chr, kind } ) != 0, "c10.handle", kind ? "indication" : "notification", " for characteristic ", chr, " (handle ", h,
                ") was sent but not requested (pending: ", pending_text( c ), ")" );
            require( subscribed( c, chr, kind ), "c10.subscription", kind ? "indication" : "notification", " for characteristic ", chr, " sent to connection ", c,
                " which is not subscribed for it (CCCD ", cs.cccd[ chr ], ")" );
            if ( ch.enc == 1 && cs.sec != 2 )
            {
                touched_protected_unencrypted = true;
                require( false, "c05.notification", "value of the protected characteristic ", chr, " was sent over the unencrypted connection ", c, ": ", verif::hex( out ) );
            }
            if ( kind == 1 )
            {
                require( !cs.outstanding, "c11.one-outstanding", "a second indication was sent while the confirmation of the previous one is outstanding: ", verif::hex( out ) );
                cs.outstanding = true;
            }
            const bytes v = chr_value( ch );
            bytes       exp( out.begin(), out.begin() + 3 );
            exp.insert( exp.end(), v.begin(), v.begin() + std::min< std::size_t >( v.size(), std::min< std::size_t >( given, mtu( c ) ) - 3 ) );
            require( out == exp, "c10.value", kind ? "indication" : "notification", " of characteristic ", chr, " must carry the current value ", verif::hex( exp ), ", got ",
                verif::hex( out ) );
            if ( static_cast< int >( v.size() ) > mtu( c ) - 3 && static_cast< int >( given ) >= mtu( c ) )
                require( static_cast< int >( out.size() ) == mtu( c ), "c08.uses-mtu", "a value longer than the MTU must fill the negotiated MTU ", mtu( c ), ", got ", out.size(), " bytes" );
            cs.maybe.erase( { chr, kind } );
            cs.ghost.erase( { chr, kind } );
            cs.ghost_budget = std::min< int >( cs.ghost_budget, static_cast< int >( cs.ghost.size() ) );
            cs.certain.erase( { chr, kind } );
        }

        std::string pending_text( int c ) const
        {
            std::string s;
            for ( auto& e : con[ c ].maybe )
                s += verif::cat( "(", e.first, ",", e.second ? "ind" : "not", ")" );
            return s;
        }

        // raw access for the model's own read backs
        bytes raw( int c, const bytes& in, std::size_t given = 0 )
        {
            if ( given == 0 )
                given = db.max_mtu;
            std::uint8_t* ib = new std::uint8_t[ in.size() ];
            std::copy( in.begin(), in.end(), ib );
            std::uint8_t* ob = new std::uint8_t[ given ];
            std::size_t   os = given;
            srv.l2cap_input( c, ib, in.size(), ob, os );
            bytes out( ob, ob + std::min( os, given ) );
            const bool overflow = os > given;
            delete[] ib;
            delete[] ob;
            require( !overflow, "c01.size", "out_size ", os, " larger than the buffer ", given );
            return out;
        }
    };
}
