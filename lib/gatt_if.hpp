// gatt_if.hpp -- interface between a generated server declaration (adapter TU, compiled against the repo, no rapidcheck)
// and the generic driver (reference model + rapidcheck, compiled without repo headers).
#pragma once

#include <cstddef>
#include <cstdint>
#include <string>
#include <vector>

namespace vg {

    typedef std::vector< std::uint8_t > bytes;

    enum attr_kind { A_SERVICE, A_INCLUDE, A_CHARDECL, A_VALUE, A_CCCD, A_USERDESC, A_DESCRIPTOR };

    enum value_kind {
        V_VAR,       // bind_characteristic_value to a harness variable (array or scalar)
        V_CONSTVAR,  // bound to a const object
        V_FIXED,     // fixed_uintN_value
        V_CSTR,      // cstring_value / gap name
        V_BLOB,      // fixed_blob_value
        V_HBLOB,     // free_read_blob_handler + free_write_blob_handler on a harness store
        V_HRAW,      // free_read_handler + free_raw_write_handler on a harness store
        V_HWRONLY,   // free_raw_write_handler only
        V_HRDONLY    // free_read_handler only
    };

    struct Attr
    {
        int           kind;
        std::uint16_t handle;        // expected handle (sequential rule + fixed handles)
        bytes         type;          // attribute type UUID, little endian, 2 or 16 bytes
        int           service;       // owning service index
        int           chr;           // owning characteristic index or -1
        int           incl_service;  // for A_INCLUDE: the included service
        bytes         fixed;         // value of A_USERDESC / A_DESCRIPTOR
        bool          fixed_handle;  // the declaration requested this handle explicitly
    };

    struct Chr
    {
        int         service;
        bytes       uuid;  // little endian 2 or 16
        int         vk;
        int         var;   // index of the bound variable / handler store, -1 if none
        int         size;  // size of a bound variable
        bytes       fixed; // value of fixed / cstr / blob kinds
        bool        no_read, no_write, notify, indicate, wwr, only_wwr;
        int         enc;   // 0 not required, 1 required, 2 not asserted (GAP service under a server level option)
        int         decl_attr, value_attr, cccd_attr;  // attribute indices (cccd_attr -1 if none)
        bool        by_uuid;  // notify< uuid >() is available in the adapter
        bool        in_gap;
    };

    struct Svc
    {
        bool               primary;
        bytes              uuid;
        int                first_attr, last_attr;
        std::vector< int > includes;
        bool               is_gap;
    };

    struct AdvExpect
    {
        bool                 automatic_adv;       // the server builds the advertising data itself
        bool                 automatic_scan;      // automatic scan response
        std::string          name;                // advertised name ("" if none is configured: default or none)
        bool                 has_name;
        bool                 has_appearance;
        std::uint16_t        appearance;
        std::vector< bytes > uuids16, uuids128;   // service UUIDs that may be listed
        bool                 has_interval_range;
        std::uint16_t        interval_min, interval_max;
        bytes                custom_adv, custom_scan;  // custom data if not automatic
    };

    struct Db
    {
        std::string         id;    // hash of the spec
        std::string         spec;  // the generator's spec as compact JSON (replay unit)
        std::vector< Attr > attrs;
        std::vector< Chr >  chrs;
        std::vector< Svc >  svcs;
        int                 max_mtu;     // server side maximum
        int                 queue_size;  // 0 = no write queue
        int                 n_vars;
        bool                cccd_callback;
        AdvExpect           adv;
        bool                adv_explicit16, adv_explicit128;  // the uuid lists were given explicitly (otherwise: the server's services)
    };

    struct HandlerCall
    {
        int   store;  // handler store index
        int   kind;   // 0 read, 1 write
        int   offset;
        int   size;
        bool  null_ptr;  // write handler called with nullptr
    };

    struct CccdCall
    {
        int           conn;
    };

    // implemented by the generated adapter
    struct ServerIf
    {
        virtual ~ServerIf() {}
        virtual const Db& db() const                                        = 0;
        virtual void      reset()                                           = 0;  // new server, new connections, initial values
        virtual void      connect( int conn )                               = 0;
        virtual void      disconnect( int conn )                            = 0;
        // 0 = unencrypted, no key; 1 = unencrypted, key exists; 2 = encrypted
        virtual void      security( int conn, int state )                   = 0;
        // input/output are exact size heap buffers owned by the caller
        virtual void      l2cap_input( int conn, const std::uint8_t* in, std::size_t in_size, std::uint8_t* out, std::size_t& out_size ) = 0;
        virtual void      l2cap_output( int conn, std::uint8_t* out, std::size_t& out_size )                                             = 0;
        virtual int       negotiated_mtu( int conn )                        = 0;
        // mode: 0 notify( var ), 1 notify< uuid >(), 2 indicate( var ), 3 indicate< uuid >(); returns -1 if not available
        virtual int       notify( int chr, int mode )                       = 0;
        virtual std::size_t advertising_data( std::uint8_t* b, std::size_t n )   = 0;
        virtual std::size_t scan_response_data( std::uint8_t* b, std::size_t n ) = 0;
        virtual bytes     get_var( int var )                                = 0;  // bound variable or handler store content
        virtual void      set_var( int var, const bytes& )                  = 0;
        virtual std::vector< HandlerCall >& handler_calls()                 = 0;
        virtual std::vector< CccdCall >&    cccd_calls()                    = 0;
        // static handle mapping of the server
        virtual std::size_t   number_of_attributes()                        = 0;
        virtual std::uint16_t handle_by_index( std::size_t i )              = 0;
        virtual std::size_t   index_by_handle( std::uint16_t h )            = 0;   // ~0 if invalid
        virtual std::size_t   first_index_by_handle( std::uint16_t h )      = 0;
    };

    // registry of the adapters linked into the binary
    std::vector< ServerIf* >& servers();
    struct Register
    {
        explicit Register( ServerIf* s ) { servers().push_back( s ); }
    };
}
