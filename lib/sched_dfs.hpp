// sched_dfs.hpp -- plumbing for the exhaustive ("dfs") targets of the scheduler harnesses (C13, C30)
//
// An exhaustive target does not sample: its generator hands out the elements of a fixed, finite list of cases (each
// case = one program pair whose complete schedule tree is enumerated inside run()) exactly once, in a fixed order.
// The list is dealt round robin to `parts` worker processes (registry option parts=N together with procs=N): the
// driver starts worker k with --seed s*1000+k+1, so k = (seed-1) mod 1000. A worker that has handed out its whole
// share records the class `dfs-part-<k>-of-<N>-complete`; the enumeration is complete iff all N classes are present
// in the evidence (a worker that is stopped by the time guard or gets fewer cases than its share does not record it).
// Surplus calls (cases budget > share) get the padding case, which run() has to ignore.
#pragma once

#include "verif.hpp"

#include <memory>

namespace verif {
namespace sched {

    template < class Case >
    rc::Gen< Case > enumerate_gen( const std::vector< Case >& all, const Case& padding )
    {
        const long parts = std::max( 1L, verif::opt_int( "parts", 1 ) );
        const long part  = static_cast< long >( ( verif::Session::get().seed + 999 ) % 1000 ) % parts;
        auto       mine  = std::make_shared< std::vector< Case > >();
        for ( std::size_t i = 0; i != all.size(); ++i )
            if ( static_cast< long >( i % parts ) == part )
                mine->push_back( all[ i ] );
        auto pos = std::make_shared< std::size_t >( 0 );
        verif::Session::get().classes[ verif::cat( "dfs-space-", all.size(), "-trees-in-", parts, "-parts" ) ] += mine->size();
        if ( mine->empty() )
            verif::Session::get().classes[ verif::cat( "dfs-part-", part, "-of-", parts, "-complete" ) ] += 1;
        return rc::Gen< Case >( [ = ]( const rc::Random&, int ) {
            if ( *pos < mine->size() )
            {
                const Case c = ( *mine )[ ( *pos )++ ];
                return rc::shrinkable::just( c );
            }
            return rc::shrinkable::just( padding );
        } );
    }

    // to be called by run() when it has completely enumerated one tree
    inline void tree_completed( std::uint64_t schedules, std::uint64_t nontrivial_schedules )
    {
        auto& S = verif::Session::get();
        S.classes[ "dfs-schedules-executed" ] += schedules;
        S.classes[ "dfs-schedules-nontrivial" ] += nontrivial_schedules;
        S.classes[ "dfs-trees-completed" ] += 1;
        // completion of the share of this worker
        const long parts = std::max( 1L, verif::opt_int( "parts", 1 ) );
        const long part  = static_cast< long >( ( S.seed + 999 ) % 1000 ) % parts;
        static std::uint64_t done = 0;
        ++done;
        for ( auto& c : S.classes )
            if ( c.first.compare( 0, 10, "dfs-space-" ) == 0 && c.second == done )
                S.classes[ verif::cat( "dfs-part-", part, "-of-", parts, "-complete" ) ] += 1;
    }
}
}
