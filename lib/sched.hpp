// sched.hpp -- deterministic two-context scheduler that owns every yield point (DESIGN.md 2.4, C13, C30)
//
// Two programs ("contexts" 0 and 1) run as ucontext coroutines on their own stacks; exactly one runs at any time.
// The instrumented code under test calls Sched::access() immediately BEFORE every access to shared memory (that is
// what the two repo hooks expand to); the harness brackets every operation with begin_op()/end_op(). At those points
// the scheduler consumes the next entry of the schedule (a vector of small integers that is part of the generated
// case) and decides who runs next. There is no thread, no clock and no randomness in here: a run is a pure function
// of (programs, model, first, schedule), so replays are exact and rapidcheck can shrink the schedule.
//
// Models
//   FREE  free interleaving of the two contexts at single-access granularity. A schedule entry is consumed at every
//         access() of the running context while the other context has not finished: 0 = go on, != 0 = switch.
//   NEST  interrupt nesting (single core, e.g. Cortex-M): context `first` is the interrupted one. At each of its
//         yield points (access() and begin_op()) an entry n is consumed; the other context then runs n whole
//         operations (capped by what it has left) to completion before the interrupted access is performed.
//         Yield points inside the interrupting operations are not preemptible. What is left of the interrupting
//         program when the interrupted one has finished runs afterwards.
// Entries are consumed only where there really is a choice (arity >= 2); when the schedule is exhausted the choice
// is 0. `trace` records (taken, arity) of every choice point, which is all next_schedule() needs to enumerate the
// complete schedule tree of a fixed program pair depth first (stateless search, one re-execution per schedule).
#pragma once

#include <ucontext.h>

#include <cstddef>
#include <cstdint>
#include <cstdlib>
#include <functional>
#include <vector>

extern "C" void __sanitizer_start_switch_fiber( void** fake_stack_save, const void* bottom, std::size_t size );
extern "C" void __sanitizer_finish_switch_fiber( void* fake_stack_save, const void** bottom_old, std::size_t* size_old );

namespace verif {
namespace sched {

    enum Model { FREE = 0, NEST = 1 };

    struct Event
    {
        std::uint8_t ctx;    // 0 / 1
        char         kind;   // 'b' begin_op, 'e' end_op, otherwise the kind given to access(): 'l' load, 's' store, 'c' element copy, ...
        std::int16_t op;     // index of the operation inside the context's program
        const void*  addr;   // accessed location (nullptr for 'b'/'e')
        bool         switched_before;  // the other context ran between this context's previous event and this one
    };

    struct Choice
    {
        std::uint8_t taken;
        std::uint8_t arity;
        std::uint8_t ctx;   // context that was running at the choice point
        std::int32_t at;    // number of events logged before the choice was made
    };

    class Sched
    {
    public:
        static Sched& get()
        {
            static Sched s;
            return s;
        }

        // results of the last run() -------------------------------------------------------------
        std::vector< Event >  log;       // every event in the global order in which it happened
        std::vector< Choice > trace;     // every choice point with arity >= 2
        unsigned              switches = 0;     // context switches between the two programs (including the hand-over at the end of one)
        unsigned              preemptions = 0;  // choices != 0
        int                   max_switches = -1;  // >= 0: no further choice point once that many preemptions happened (bounded enumeration)
        bool                  active() const { return running_; }
        int                   current() const { return cur_; }

        // run both programs under the given schedule; returns when both have finished
        void run( Model model, int first, const std::vector< std::uint8_t >& schedule, int ops0, int ops1,
            const std::function< void() >& f0, const std::function< void() >& f1 )
        {
            log.clear();
            trace.clear();
            switches   = 0;
            preemptions = 0;
            model_     = model;
            first_     = first & 1;
            schedule_  = &schedule;
            pos_       = 0;
            fn_[ 0 ]   = &f0;
            fn_[ 1 ]   = &f1;
            total_[ 0 ] = ops0;
            total_[ 1 ] = ops1;
            for ( int i = 0; i != 2; ++i )
            {
                done_[ i ]      = false;
                op_[ i ]        = -1;
                started_[ i ]   = 0;
                last_event_[ i ] = -1;
                if ( !stack_[ i ] )
                    stack_[ i ] = static_cast< char* >( std::malloc( stack_size ) );
                ::getcontext( &ctx_[ i ] );
                ctx_[ i ].uc_stack.ss_sp   = stack_[ i ];
                ctx_[ i ].uc_stack.ss_size = stack_size;
                ctx_[ i ].uc_link          = nullptr;
                ::makecontext( &ctx_[ i ], reinterpret_cast< void ( * )() >( &Sched::entry ), 1, i );
            }
            nest_budget_ = 0;
            running_     = true;
            cur_         = first_;
            // an interrupting program without anything to interrupt (or the reverse) simply runs alone
            switch_to( MAIN, cur_ );
            running_ = false;
        }

        // yield points -----------------------------------------------------------------------------
        // to be called immediately before the access it describes
        void access( char kind, const void* addr )
        {
            if ( !running_ )
                return;
            yield_point( false );
            record( kind, addr );
        }

        void begin_op()
        {
            if ( !running_ )
                return;
            const int me = cur_;
            ++op_[ me ];
            if ( model_ == NEST && me != first_ )
            {
                // interrupting side: one whole operation per unit of budget, then back to the interrupted side
                if ( !done_[ first_ ] )
                {
                    if ( nest_budget_ == 0 )
                        switch_to( me, first_ );
                    --nest_budget_;
                }
            }
            else if ( model_ == NEST )
                yield_point( true );
            ++started_[ me ];
            record( 'b', nullptr );
        }

        void end_op()
        {
            if ( !running_ )
                return;
            record( 'e', nullptr );
        }

        // depth first enumeration: the schedule that follows `trace` in the schedule tree; false when the tree is exhausted
        static bool next_schedule( const std::vector< Choice >& trace, std::vector< std::uint8_t >& schedule )
        {
            std::size_t i = trace.size();
            while ( i != 0 && trace[ i - 1 ].taken + 1 >= trace[ i - 1 ].arity )
                --i;
            if ( i == 0 )
                return false;
            schedule.resize( i );
            for ( std::size_t k = 0; k != i; ++k )
                schedule[ k ] = trace[ k ].taken;
            ++schedule[ i - 1 ];
            return true;
        }

    private:
        static constexpr std::size_t stack_size = 32 * 1024;
        static constexpr int         MAIN       = 2;

        Sched() {}

        static void entry( int i )
        {
            Sched& s = get();
            s.finish_switch();
            ( *s.fn_[ i ] )();
            s.done_[ i ] = true;
            // hand over: the other context if it still has work, otherwise back to run()
            const int other = 1 - i;
            s.dying_        = true;
            if ( !s.done_[ other ] )
            {
                s.nest_budget_ = s.total_[ other ];  // NEST: whatever is left runs now
                s.switch_to( i, other );
            }
            else
                s.switch_to( i, MAIN );
            std::abort();  // a finished context is never resumed
        }

        int remaining_ops( int c ) const { return total_[ c ] - started_[ c ]; }

        std::uint8_t next_entry()
        {
            return pos_ < schedule_->size() ? ( *schedule_ )[ pos_++ ] : 0;
        }

        void yield_point( bool /*boundary*/ )
        {
            const int me    = cur_;
            const int other = 1 - me;
            if ( done_[ other ] )
                return;
            if ( max_switches >= 0 && static_cast< int >( preemptions ) >= max_switches )
                return;
            if ( model_ == FREE )
            {
                const std::uint8_t v = next_entry();
                const std::uint8_t t = v ? 1 : 0;
                trace.push_back( Choice{ t, 2, static_cast< std::uint8_t >( me ), static_cast< std::int32_t >( log.size() ) } );
                if ( t )
                {
                    ++preemptions;
                    switch_to( me, other );
                }
            }
            else
            {
                if ( me != first_ )
                    return;  // the interrupting side is not preemptible
                const int rem = remaining_ops( other );
                if ( rem <= 0 )
                    return;
                const std::uint8_t v = next_entry();
                const std::uint8_t t = static_cast< std::uint8_t >( v < rem ? v : rem );
                trace.push_back( Choice{ t, static_cast< std::uint8_t >( rem + 1 ), static_cast< std::uint8_t >( me ), static_cast< std::int32_t >( log.size() ) } );
                if ( t )
                {
                    ++preemptions;
                    nest_budget_ = t;
                    switch_to( me, other );
                }
            }
        }

        void record( char kind, const void* addr )
        {
            const int  me = cur_;
            const int  n  = static_cast< int >( log.size() );
            const bool sw = last_event_[ me ] >= 0 && log.back().ctx != me;
            log.push_back( Event{ static_cast< std::uint8_t >( me ), kind, static_cast< std::int16_t >( op_[ me ] ), addr, sw } );
            last_event_[ me ] = n;
        }

        void switch_to( int from, int to )
        {
            if ( from != MAIN && to != MAIN )
                ++switches;
            ucontext_t* f = from == MAIN ? &main_ : &ctx_[ from ];
            ucontext_t* t = to == MAIN ? &main_ : &ctx_[ to ];
            if ( to != MAIN )
                cur_ = to;
            const void*  bottom = to == MAIN ? main_bottom_ : stack_[ to ];
            std::size_t  size   = to == MAIN ? main_size_ : stack_size;
            void**       save   = dying_ ? nullptr : &fake_[ from ];
            dying_              = false;
            from_               = from;
            __sanitizer_start_switch_fiber( save, bottom, size );
            ::swapcontext( f, t );
            finish_switch_resumed( from );
        }

        // first instruction on a fresh coroutine stack
        void finish_switch()
        {
            const void* b = nullptr;
            std::size_t s = 0;
            __sanitizer_finish_switch_fiber( nullptr, &b, &s );
            if ( from_ == MAIN )
            {
                main_bottom_ = b;
                main_size_   = s;
            }
        }

        // back on the stack of `me` after somebody switched to it
        void finish_switch_resumed( int me )
        {
            const void* b = nullptr;
            std::size_t s = 0;
            __sanitizer_finish_switch_fiber( fake_[ me ], &b, &s );
            if ( from_ == MAIN )
            {
                main_bottom_ = b;
                main_size_   = s;
            }
        }

        Model                               model_ = FREE;
        int                                 first_ = 0;
        const std::vector< std::uint8_t >*  schedule_ = nullptr;
        std::size_t                         pos_ = 0;
        const std::function< void() >*      fn_[ 2 ] = { nullptr, nullptr };
        bool                                done_[ 2 ] = { true, true };
        int                                 op_[ 2 ] = { -1, -1 };
        int                                 total_[ 2 ] = { 0, 0 };
        int                                 started_[ 2 ] = { 0, 0 };
        int                                 last_event_[ 2 ] = { -1, -1 };
        int                                 nest_budget_ = 0;
        bool                                running_ = false;
        int                                 cur_ = 0;
        int                                 from_ = MAIN;
        bool                                dying_ = false;

        ucontext_t                          main_;
        ucontext_t                          ctx_[ 2 ];
        char*                               stack_[ 2 ] = { nullptr, nullptr };
        void*                               fake_[ 3 ] = { nullptr, nullptr, nullptr };
        const void*                         main_bottom_ = nullptr;
        std::size_t                         main_size_ = 0;
    };

    inline Sched& S() { return Sched::get(); }

}  // namespace sched
}  // namespace verif
