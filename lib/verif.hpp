// verif.hpp -- common plumbing of every /verif harness (DESIGN.md 2.2, 2.3, 5)
//
// A harness defines a generated `Case`, a text serialisation of it (the replay unit),
// and `run(case, report)` which applies the case to the code under test and to the
// reference model and throws verif::failure (through V_CHECK) when an oracle is violated.
// verif::run_main() drives it either through rapidcheck (sweep) or from a file (--replay).
//
//   harness --property C12 --seed 1 --cases 2000 --size 100 --out res.json [--opt k=v]...
//   harness --property C12 --replay file.case [--opt k=v]...
//
// Sweep result: res.json (counts, classes, samples, first shrunk violation) and res.json.hashes
// (binary u64 hashes of the distinct non-trivial cases). A sanitizer report / assert / signal
// dumps the case that was running to res.json.crashcase before the process dies.
#pragma once

#include <rapidcheck.h>

#include <chrono>
#include <csignal>
#include <cstdint>
#include <cstdio>
#include <cstdlib>
#include <cstring>
#include <fcntl.h>
#include <fstream>
#include <functional>
#include <iostream>
#include <map>
#include <sstream>
#include <string>
#include <unistd.h>
#include <unordered_set>
#include <vector>

extern "C" void __sanitizer_set_death_callback( void ( *callback )( void ) );

namespace verif {

    // ------------------------------------------------------------------ small helpers
    inline void cat_to( std::ostream& ) {}
    template < class T, class... Ts >
    void cat_to( std::ostream& os, const T& t, const Ts&... ts )
    {
        os << t;
        cat_to( os, ts... );
    }
    template < class... Ts >
    std::string cat( const Ts&... ts )
    {
        std::ostringstream os;
        cat_to( os, ts... );
        return os.str();
    }

    inline std::string hex( const std::uint8_t* p, std::size_t n )
    {
        static const char* d = "0123456789abcdef";
        std::string        r;
        for ( std::size_t i = 0; i != n; ++i )
        {
            r += d[ p[ i ] >> 4 ];
            r += d[ p[ i ] & 15 ];
        }
        return r.empty() ? std::string( "-" ) : r;
    }
    inline std::string hex( const std::vector< std::uint8_t >& v ) { return hex( v.data(), v.size() ); }

    inline std::vector< std::uint8_t > unhex( const std::string& s )
    {
        std::vector< std::uint8_t > r;
        if ( s == "-" )
            return r;
        auto val = []( char c ) -> int { return c <= '9' ? c - '0' : ( c | 32 ) - 'a' + 10; };
        for ( std::size_t i = 0; i + 1 < s.size(); i += 2 )
            r.push_back( static_cast< std::uint8_t >( val( s[ i ] ) * 16 + val( s[ i + 1 ] ) ) );
        return r;
    }

    inline std::uint64_t fnv1a( const std::string& s )
    {
        std::uint64_t h = 1469598103934665603ull;
        for ( unsigned char c : s )
        {
            h ^= c;
            h *= 1099511628211ull;
        }
        return h;
    }

    inline std::string json_escape( const std::string& s )
    {
        std::string r;
        for ( unsigned char c : s )
        {
            switch ( c )
            {
            case '"': r += "\\\""; break;
            case '\\': r += "\\\\"; break;
            case '\n': r += "\\n"; break;
            case '\t': r += "\\t"; break;
            case '\r': r += "\\r"; break;
            default:
                if ( c < 0x20 || c >= 0x7f )
                {
                    char b[ 8 ];
                    std::snprintf( b, sizeof b, "\\u%04x", c );
                    r += b;
                }
                else
                    r += static_cast< char >( c );
            }
        }
        return r;
    }

    // ------------------------------------------------------------------ oracle failures
    struct failure
    {
        std::string oracle;  // name of the sub-oracle, e.g. "queue.return-value"
        std::string msg;     // human readable
        std::string sig;     // space separated k=v pairs used to match open findings
    };

    [[noreturn]] inline void fail( const std::string& oracle, const std::string& msg, const std::string& sig = "" )
    {
        throw failure{ oracle, msg, sig };
    }

#define V_CHECK( cond, oracle, ... )                                                                                  \
    do                                                                                                                \
    {                                                                                                                 \
        if ( !( cond ) )                                                                                              \
            ::verif::fail( oracle, ::verif::cat( __VA_ARGS__, "  [", #cond, " @", __LINE__, "]" ) );                   \
    } while ( 0 )

#define V_CHECK_SIG( cond, oracle, sig, ... )                                                                         \
    do                                                                                                                \
    {                                                                                                                 \
        if ( !( cond ) )                                                                                              \
            ::verif::fail( oracle, ::verif::cat( __VA_ARGS__, "  [", #cond, " @", __LINE__, "]" ), sig );              \
    } while ( 0 )

    // ------------------------------------------------------------------ per case report
    struct Report
    {
        bool                       nontrivial = false;
        bool                       excluded   = false;  // case (or part of it) removed because of an open finding
        std::vector< std::string > labels;
        void                       label( const std::string& l ) { labels.push_back( l ); }
        void                       label_if( bool c, const std::string& l )
        {
            if ( c )
                labels.push_back( l );
        }
    };

    // ------------------------------------------------------------------ session (one per process)
    struct Session
    {
        std::string                          property;
        std::map< std::string, std::string > opts;
        std::string                          out;
        std::uint64_t                        seed = 1, cases = 100, size = 100;
        double                               max_seconds = 0;
        bool                                 replay_mode = false;

        std::uint64_t                        evaluations = 0, excluded = 0, nontrivial_total = 0, skipped_time = 0;
        std::unordered_set< std::uint64_t >  nontrivial;
        std::map< std::string, std::uint64_t > classes;
        std::vector< std::string >           samples;
        std::string                          largest_sample;
        bool                                 have_failure = false;
        std::string                          fail_case;
        failure                              fail_info;
        std::uint64_t                        fail_runs = 0;
        std::chrono::steady_clock::time_point t0 = std::chrono::steady_clock::now();

        static Session& get()
        {
            static Session s;
            return s;
        }
    };

    inline const std::string& property() { return Session::get().property; }
    inline std::string opt( const std::string& k, const std::string& dflt = "" )
    {
        auto& o = Session::get().opts;
        auto  i = o.find( k );
        return i == o.end() ? dflt : i->second;
    }
    inline long opt_int( const std::string& k, long dflt )
    {
        auto s = opt( k );
        return s.empty() ? dflt : std::strtol( s.c_str(), nullptr, 0 );
    }
    // true if the comma separated list option `k` contains `item`
    inline bool opt_has( const std::string& k, const std::string& item )
    {
        std::string        s = opt( k );
        std::istringstream is( s );
        std::string        t;
        while ( std::getline( is, t, ',' ) )
            if ( t == item )
                return true;
        return false;
    }

    // ------------------------------------------------------------------ crash dump of the running case
    namespace detail {
        inline char*&       cur_buf()
        {
            static char* b = nullptr;
            return b;
        }
        inline std::size_t& cur_len()
        {
            static std::size_t l = 0;
            return l;
        }
        inline std::size_t& cur_cap()
        {
            static std::size_t c = 0;
            return c;
        }
        inline char* crash_path()
        {
            static char p[ 1024 ];
            return p;
        }
        inline void dump_current()
        {
            if ( !crash_path()[ 0 ] || !cur_buf() )
                return;
            int fd = ::open( crash_path(), O_WRONLY | O_CREAT | O_TRUNC, 0644 );
            if ( fd < 0 )
                return;
            std::size_t off = 0;
            while ( off < cur_len() )
            {
                auto n = ::write( fd, cur_buf() + off, cur_len() - off );
                if ( n <= 0 )
                    break;
                off += static_cast< std::size_t >( n );
            }
            ::close( fd );
        }
        inline void on_signal( int sig )
        {
            dump_current();
            std::signal( sig, SIG_DFL );
            ::raise( sig );
        }
        inline void set_current( const std::string& s )
        {
            if ( s.size() + 1 > cur_cap() )
            {
                cur_cap() = s.size() * 2 + 4096;
                cur_buf() = static_cast< char* >( std::realloc( cur_buf(), cur_cap() ) );
            }
            std::memcpy( cur_buf(), s.data(), s.size() );
            cur_len() = s.size();
        }
    }

    // ------------------------------------------------------------------ result file
    inline void write_result( bool rc_ok )
    {
        auto& S = Session::get();
        if ( S.out.empty() )
            return;
        {
            std::ofstream hf( S.out + ".hashes", std::ios::binary );
            for ( auto h : S.nontrivial )
                hf.write( reinterpret_cast< const char* >( &h ), sizeof h );
        }
        std::ofstream f( S.out );
        double        wall = std::chrono::duration< double >( std::chrono::steady_clock::now() - S.t0 ).count();
        f << "{\n \"property\": \"" << S.property << "\",\n \"seed\": " << S.seed << ",\n \"evaluations\": " << S.evaluations
          << ",\n \"distinct_nontrivial\": " << S.nontrivial.size() << ",\n \"nontrivial_total\": " << S.nontrivial_total
          << ",\n \"excluded_known\": " << S.excluded << ",\n \"skipped_for_time\": " << S.skipped_time
          << ",\n \"rc_ok\": " << ( rc_ok ? "true" : "false" ) << ",\n \"wall_s\": " << wall << ",\n \"classes\": {";
        bool first = true;
        for ( auto& c : S.classes )
        {
            f << ( first ? "" : "," ) << "\n  \"" << json_escape( c.first ) << "\": " << c.second;
            first = false;
        }
        f << "\n },\n \"samples\": [";
        first = true;
        auto samples = S.samples;
        if ( !S.largest_sample.empty() )
            samples.push_back( S.largest_sample );
        for ( auto& s : samples )
        {
            f << ( first ? "" : "," ) << "\n  \"" << json_escape( s ) << "\"";
            first = false;
        }
        f << "\n ],\n \"violation\": ";
        if ( S.have_failure )
            f << "{\"oracle\": \"" << json_escape( S.fail_info.oracle ) << "\", \"msg\": \"" << json_escape( S.fail_info.msg )
              << "\", \"sig\": \"" << json_escape( S.fail_info.sig ) << "\", \"case\": \"" << json_escape( S.fail_case ) << "\"}";
        else
            f << "null";
        f << "\n}\n";
    }

    // ------------------------------------------------------------------ the harness description
    template < class Case >
    struct Harness
    {
        std::function< rc::Gen< Case >() >                    gen;
        std::function< std::string( const Case& ) >           to_text;
        std::function< Case( const std::string& ) >           from_text;
        std::function< void( const Case&, Report& ) >         run;
    };

    template < class Case >
    int run_main( int argc, char** argv, const Harness< Case >& h )
    {
        auto&       S = Session::get();
        std::string replay;
        for ( int i = 1; i < argc; ++i )
        {
            std::string a = argv[ i ];
            auto        next = [&]() -> std::string { return i + 1 < argc ? argv[ ++i ] : ""; };
            if ( a == "--property" ) S.property = next();
            else if ( a == "--seed" ) S.seed = std::strtoull( next().c_str(), nullptr, 0 );
            else if ( a == "--cases" ) S.cases = std::strtoull( next().c_str(), nullptr, 0 );
            else if ( a == "--size" ) S.size = std::strtoull( next().c_str(), nullptr, 0 );
            else if ( a == "--max-seconds" ) S.max_seconds = std::strtod( next().c_str(), nullptr );
            else if ( a == "--out" ) S.out = next();
            else if ( a == "--replay" ) replay = next();
            else if ( a == "--opt" )
            {
                std::string kv = next();
                auto        p  = kv.find( '=' );
                S.opts[ kv.substr( 0, p ) ] = p == std::string::npos ? "1" : kv.substr( p + 1 );
            }
            else
            {
                std::cerr << "unknown argument " << a << "\n";
                return 2;
            }
        }

        if ( !replay.empty() )
        {
            S.replay_mode = true;
            std::ifstream     in( replay );
            std::stringstream ss;
            ss << in.rdbuf();
            if ( !in && ss.str().empty() )
            {
                std::cerr << "cannot read " << replay << "\n";
                return 2;
            }
            Case   c = h.from_text( ss.str() );
            Report r;
            try
            {
                h.run( c, r );
            }
            catch ( const failure& f )
            {
                std::cout << "REPLAY-FAIL oracle=" << f.oracle << " sig={" << f.sig << "} msg=" << f.msg << "\n";
                return 1;
            }
            std::cout << "REPLAY-PASS nontrivial=" << r.nontrivial << "\n";
            return 0;
        }

        if ( !S.out.empty() )
        {
            std::snprintf( detail::crash_path(), 1024, "%s.crashcase", S.out.c_str() );
            ::unlink( detail::crash_path() );
        }
        __sanitizer_set_death_callback( &detail::dump_current );
        std::signal( SIGABRT, &detail::on_signal );
        std::signal( SIGSEGV, &detail::on_signal );
        std::signal( SIGFPE, &detail::on_signal );
        std::signal( SIGILL, &detail::on_signal );
        std::signal( SIGBUS, &detail::on_signal );

        const std::string params = cat( "seed=", S.seed == 0 ? 1 : S.seed, " max_success=", S.cases, " max_size=", S.size,
            " max_discard_ratio=100" );
        ::setenv( "RC_PARAMS", params.c_str(), 1 );

        auto gen = h.gen();
        bool ok  = rc::check( S.property, [&]() {
            if ( S.max_seconds > 0 && !S.have_failure
                && std::chrono::duration< double >( std::chrono::steady_clock::now() - S.t0 ).count() > S.max_seconds )
            {
                ++S.skipped_time;
                return;
            }
            const Case        c    = *gen;
            const std::string text = h.to_text( c );
            detail::set_current( text );
            Report r;
            try
            {
                h.run( c, r );
            }
            catch ( const failure& f )
            {
                S.have_failure = true;
                S.fail_case    = text;
                S.fail_info    = f;
                ++S.fail_runs;
                RC_FAIL( f.oracle + ": " + f.msg );
            }
            ++S.evaluations;
            if ( r.excluded )
                ++S.excluded;
            for ( auto& l : r.labels )
                ++S.classes[ l ];
            if ( r.nontrivial )
            {
                ++S.nontrivial_total;
                ++S.classes[ "nontrivial" ];
                if ( S.nontrivial.insert( fnv1a( text ) ).second )
                {
                    if ( S.samples.size() < 3 )
                        S.samples.push_back( text );
                    else if ( text.size() > S.largest_sample.size() && text.size() < 6000 )
                        S.largest_sample = text;
                }
            }
        } );
        write_result( ok );
        if ( !ok && !S.have_failure )
        {
            std::cerr << "rapidcheck reported a failure that is not an oracle failure (generator problem?)\n";
            return 3;
        }
        return ok ? 0 : 1;
    }

    // ------------------------------------------------------------------ line based case text helpers
    // A case is a sequence of lines; each line is a list of whitespace separated tokens.
    struct Lines
    {
        std::vector< std::vector< std::string > > lines;
        explicit Lines( const std::string& text )
        {
            std::istringstream is( text );
            std::string        l;
            while ( std::getline( is, l ) )
            {
                std::istringstream       ls( l );
                std::vector< std::string > toks;
                std::string              t;
                while ( ls >> t )
                    toks.push_back( t );
                if ( !toks.empty() && toks[ 0 ][ 0 ] != '#' )
                    lines.push_back( toks );
            }
        }
    };
    inline long tok_int( const std::vector< std::string >& t, std::size_t i, long dflt = 0 )
    {
        return i < t.size() ? std::strtol( t[ i ].c_str(), nullptr, 0 ) : dflt;
    }
    inline std::string tok_str( const std::vector< std::string >& t, std::size_t i, const std::string& dflt = "-" )
    {
        return i < t.size() ? t[ i ] : dflt;
    }

    // ------------------------------------------------------------------ generator helpers
    // inRange that does not collapse at small sizes
    template < class T >
    rc::Gen< T > range( T lo, T hi_inclusive )
    {
        return rc::gen::resize( 100, rc::gen::inRange< T >( lo, static_cast< T >( hi_inclusive + 1 ) ) );
    }
    inline rc::Gen< std::vector< std::uint8_t > > bytes( std::size_t lo, std::size_t hi )
    {
        return rc::gen::mapcat( range< std::size_t >( lo, hi ), []( std::size_t n ) {
            return rc::gen::container< std::vector< std::uint8_t > >( n, rc::gen::arbitrary< std::uint8_t >() );
        } );
    }
}
