#pragma once
// refcrypto.hpp -- independent reference implementation of the cryptography the nRF52 security toolbox has to
// compute (DESIGN.md section 4, C37). Nothing here is derived from bluetoe or from tests/test_tools/aes.c:
//
//   * AES-128 encryption written from FIPS-197 (S-box computed algebraically: inverse in GF(2^8) + affine map)
//   * AES-CMAC written from RFC 4493 (sub keys, padding, any message length)
//   * the SMP functions c1, s1 (legacy pairing) and f4, f5, f6, g2 (LE secure connections) written from the
//     formulas of the Core specification Vol 3 Part H 2.2, the link layer session key SK = e(LTK, SKDs || SKDm)
//     (Vol 6 Part B 5.1.3.1)
//   * P-256 curve membership (y^2 = x^3 - 3x + b mod p) and construction of points (square roots, p = 3 mod 4)
//
// Everything is written in the specification's notation: octet strings with the MOST significant octet first.
// Harnesses convert to the little-endian interface of the code under test with rev().
//
// selfcheck() verifies the implementation against FIPS-197 App. B / C.1, the RFC 4493 test vectors, the Core
// specification sample data (Vol 3 Part H 2.2.3/2.2.4 and App. D, Vol 6 Part C 1) and the P-256 base point; a
// harness calls it at start-up and refuses to run if it fails.
#include <algorithm>
#include <array>
#include <cstdint>
#include <cstring>
#include <string>
#include <vector>

namespace refcrypto {

    using octets = std::vector< std::uint8_t >;
    using block  = std::array< std::uint8_t, 16 >;

    inline octets from_hex( const std::string& s )
    {
        octets r;
        int    hi = -1;
        for ( char c : s )
        {
            int v;
            if ( c >= '0' && c <= '9' ) v = c - '0';
            else if ( c >= 'a' && c <= 'f' ) v = c - 'a' + 10;
            else if ( c >= 'A' && c <= 'F' ) v = c - 'A' + 10;
            else continue;
            if ( hi < 0 ) hi = v;
            else
            {
                r.push_back( static_cast< std::uint8_t >( hi * 16 + v ) );
                hi = -1;
            }
        }
        return r;
    }

    inline std::string to_hex( const std::uint8_t* p, std::size_t n )
    {
        static const char* d = "0123456789abcdef";
        std::string        r;
        for ( std::size_t i = 0; i != n; ++i )
        {
            r += d[ p[ i ] >> 4 ];
            r += d[ p[ i ] & 15 ];
        }
        return r;
    }
    inline std::string to_hex( const octets& o ) { return to_hex( o.data(), o.size() ); }
    inline std::string to_hex( const block& o ) { return to_hex( o.data(), o.size() ); }

    inline octets rev( octets v )
    {
        std::reverse( v.begin(), v.end() );
        return v;
    }
    inline block rev( block v )
    {
        std::reverse( v.begin(), v.end() );
        return v;
    }
    inline block to_block( const octets& v )
    {
        block b{};
        for ( std::size_t i = 0; i != 16 && i != v.size(); ++i )
            b[ i ] = v[ i ];
        return b;
    }
    inline octets cat() { return {}; }
    template < class... Ts >
    octets cat( const octets& a, const Ts&... rest )
    {
        octets r = a;
        octets t = cat( rest... );
        r.insert( r.end(), t.begin(), t.end() );
        return r;
    }
    inline octets oct( const block& b ) { return octets( b.begin(), b.end() ); }

    // ------------------------------------------------------------------------------------------ AES-128 (FIPS-197)
    namespace detail {
        // multiplication in GF(2^8) modulo x^8 + x^4 + x^3 + x + 1
        inline std::uint8_t gf_mul( std::uint8_t a, std::uint8_t b )
        {
            std::uint8_t p = 0;
            for ( int i = 0; i != 8; ++i )
            {
                if ( b & 1 )
                    p ^= a;
                const bool hi = ( a & 0x80 ) != 0;
                a             = static_cast< std::uint8_t >( a << 1 );
                if ( hi )
                    a ^= 0x1b;
                b >>= 1;
            }
            return p;
        }

        // multiplicative inverse: a^254, 0 -> 0
        inline std::uint8_t gf_inv( std::uint8_t a )
        {
            std::uint8_t r = 1, base = a;
            for ( int e = 254; e; e >>= 1 )
            {
                if ( e & 1 )
                    r = gf_mul( r, base );
                base = gf_mul( base, base );
            }
            return a ? r : 0;
        }

        inline std::uint8_t rotl8( std::uint8_t x, int n ) { return static_cast< std::uint8_t >( ( x << n ) | ( x >> ( 8 - n ) ) ); }

        // FIPS-197 5.1.1: inverse followed by the affine transformation
        inline std::uint8_t sub_byte( std::uint8_t x )
        {
            static std::uint8_t table[ 256 ];
            static bool         init = false;
            if ( !init )
            {
                for ( int i = 0; i != 256; ++i )
                {
                    const std::uint8_t b = gf_inv( static_cast< std::uint8_t >( i ) );
                    table[ i ]           = static_cast< std::uint8_t >( b ^ rotl8( b, 1 ) ^ rotl8( b, 2 ) ^ rotl8( b, 3 ) ^ rotl8( b, 4 ) ^ 0x63 );
                }
                init = true;
            }
            return table[ x ];
        }
    }

    // e( key, plaintext ): both most significant octet first, as in FIPS-197
    inline block aes128( const block& key, const block& in )
    {
        using namespace detail;
        // key expansion, 44 words
        std::uint8_t w[ 44 ][ 4 ];
        for ( int i = 0; i != 4; ++i )
            for ( int j = 0; j != 4; ++j )
                w[ i ][ j ] = key[ 4 * i + j ];
        std::uint8_t rcon = 1;
        for ( int i = 4; i != 44; ++i )
        {
            std::uint8_t t[ 4 ] = { w[ i - 1 ][ 0 ], w[ i - 1 ][ 1 ], w[ i - 1 ][ 2 ], w[ i - 1 ][ 3 ] };
            if ( i % 4 == 0 )
            {
                const std::uint8_t t0 = t[ 0 ];
                t[ 0 ]                = static_cast< std::uint8_t >( sub_byte( t[ 1 ] ) ^ rcon );
                t[ 1 ]                = sub_byte( t[ 2 ] );
                t[ 2 ]                = sub_byte( t[ 3 ] );
                t[ 3 ]                = sub_byte( t0 );
                rcon                  = gf_mul( rcon, 2 );
            }
            for ( int j = 0; j != 4; ++j )
                w[ i ][ j ] = static_cast< std::uint8_t >( w[ i - 4 ][ j ] ^ t[ j ] );
        }

        // state s[ r ][ c ] = in[ r + 4c ]
        std::uint8_t s[ 4 ][ 4 ];
        for ( int c = 0; c != 4; ++c )
            for ( int r = 0; r != 4; ++r )
                s[ r ][ c ] = in[ r + 4 * c ];

        auto add_round_key = [&]( int round ) {
            for ( int c = 0; c != 4; ++c )
                for ( int r = 0; r != 4; ++r )
                    s[ r ][ c ] ^= w[ 4 * round + c ][ r ];
        };

        add_round_key( 0 );
        for ( int round = 1; round <= 10; ++round )
        {
            for ( auto& row : s )
                for ( auto& b : row )
                    b = sub_byte( b );
            for ( int r = 1; r != 4; ++r )
            {
                std::uint8_t t[ 4 ];
                for ( int c = 0; c != 4; ++c )
                    t[ c ] = s[ r ][ ( c + r ) % 4 ];
                for ( int c = 0; c != 4; ++c )
                    s[ r ][ c ] = t[ c ];
            }
            if ( round != 10 )
            {
                for ( int c = 0; c != 4; ++c )
                {
                    const std::uint8_t a0 = s[ 0 ][ c ], a1 = s[ 1 ][ c ], a2 = s[ 2 ][ c ], a3 = s[ 3 ][ c ];
                    s[ 0 ][ c ] = static_cast< std::uint8_t >( gf_mul( a0, 2 ) ^ gf_mul( a1, 3 ) ^ a2 ^ a3 );
                    s[ 1 ][ c ] = static_cast< std::uint8_t >( a0 ^ gf_mul( a1, 2 ) ^ gf_mul( a2, 3 ) ^ a3 );
                    s[ 2 ][ c ] = static_cast< std::uint8_t >( a0 ^ a1 ^ gf_mul( a2, 2 ) ^ gf_mul( a3, 3 ) );
                    s[ 3 ][ c ] = static_cast< std::uint8_t >( gf_mul( a0, 3 ) ^ a1 ^ a2 ^ gf_mul( a3, 2 ) );
                }
            }
            add_round_key( round );
        }

        block out;
        for ( int c = 0; c != 4; ++c )
            for ( int r = 0; r != 4; ++r )
                out[ r + 4 * c ] = s[ r ][ c ];
        return out;
    }

    inline block xor_block( block a, const block& b )
    {
        for ( int i = 0; i != 16; ++i )
            a[ i ] ^= b[ i ];
        return a;
    }

    // ------------------------------------------------------------------------------------------ AES-CMAC (RFC 4493)
    namespace detail {
        // RFC 4493 2.3: left shift by one bit of the 128 bit string, MSB first
        inline block shl1( const block& in )
        {
            block out{};
            for ( int i = 0; i != 16; ++i )
            {
                out[ i ] = static_cast< std::uint8_t >( in[ i ] << 1 );
                if ( i != 15 && ( in[ i + 1 ] & 0x80 ) )
                    out[ i ] |= 1;
            }
            return out;
        }
        inline block dbl( const block& in )
        {
            block out = shl1( in );
            if ( in[ 0 ] & 0x80 )
                out[ 15 ] ^= 0x87;
            return out;
        }
    }

    inline void cmac_subkeys( const block& key, block& k1, block& k2 )
    {
        const block zero{};
        const block l = aes128( key, zero );
        k1            = detail::dbl( l );
        k2            = detail::dbl( k1 );
    }

    inline block cmac( const block& key, const octets& msg )
    {
        block k1, k2;
        cmac_subkeys( key, k1, k2 );

        std::size_t n        = ( msg.size() + 15 ) / 16;
        bool        complete = n != 0 && msg.size() % 16 == 0;
        if ( n == 0 )
            n = 1;

        block last{};
        const std::size_t off = 16 * ( n - 1 );
        if ( complete )
        {
            for ( int i = 0; i != 16; ++i )
                last[ i ] = msg[ off + i ];
            last = xor_block( last, k1 );
        }
        else
        {
            const std::size_t rest = msg.size() - off;
            for ( std::size_t i = 0; i != rest; ++i )
                last[ i ] = msg[ off + i ];
            last[ rest ] = 0x80;
            last         = xor_block( last, k2 );
        }

        block x{};
        for ( std::size_t b = 0; b + 1 < n; ++b )
        {
            block m;
            for ( int i = 0; i != 16; ++i )
                m[ i ] = msg[ 16 * b + i ];
            x = aes128( key, xor_block( x, m ) );
        }
        return aes128( key, xor_block( x, last ) );
    }

    // ------------------------------------------------------------------------------------------ SMP legacy pairing
    // Vol 3 Part H 2.2.3: c1( k, r, preq, pres, iat, rat, ia, ra ) = e( k, e( k, r XOR p1 ) XOR p2 )
    //   p1 = pres || preq || rat' || iat'       p2 = padding( 32 bit ) || ia || ra
    inline octets c1_p1( const octets& preq, const octets& pres, std::uint8_t iat, std::uint8_t rat )
    {
        return cat( pres, preq, octets{ static_cast< std::uint8_t >( rat & 1 ) }, octets{ static_cast< std::uint8_t >( iat & 1 ) } );
    }
    inline octets c1_p2( const octets& ia, const octets& ra ) { return cat( octets{ 0, 0, 0, 0 }, ia, ra ); }

    inline block c1( const block& k, const block& r, const octets& preq, const octets& pres, std::uint8_t iat, std::uint8_t rat,
        const octets& ia, const octets& ra )
    {
        const block p1 = to_block( c1_p1( preq, pres, iat, rat ) );
        const block p2 = to_block( c1_p2( ia, ra ) );
        return aes128( k, xor_block( aes128( k, xor_block( r, p1 ) ), p2 ) );
    }

    // Vol 3 Part H 2.2.4: s1( k, r1, r2 ) = e( k, r1' || r2' ), r1' / r2' = least significant 64 bits of r1 / r2
    inline block s1( const block& k, const block& r1, const block& r2 )
    {
        block r;
        for ( int i = 0; i != 8; ++i )
        {
            r[ i ]     = r1[ 8 + i ];
            r[ 8 + i ] = r2[ 8 + i ];
        }
        return aes128( k, r );
    }

    // ------------------------------------------------------------------------------------------ SMP LE secure connections
    // Vol 3 Part H 2.2.6: f4( U, V, X, Z ) = AES-CMAC_X( U || V || Z )
    inline block f4( const octets& u, const octets& v, const block& x, std::uint8_t z ) { return cmac( x, cat( u, v, octets{ z } ) ); }

    // Vol 3 Part H 2.2.7: T = AES-CMAC_SALT( W ),
    //   f5 = AES-CMAC_T( Counter = 0 || keyID || N1 || N2 || A1 || A2 || Length = 256 ) || AES-CMAC_T( Counter = 1 || ... )
    //   the first half is the MacKey, the second the LTK; A1 / A2 are 56 bit: address type octet, then the address
    inline void f5( const octets& w, const block& n1, const block& n2, const octets& a1, const octets& a2, block& mac_key, block& ltk )
    {
        const block  salt  = to_block( from_hex( "6C888391AAF5A53860370BDB5A6083BE" ) );
        const block  t     = cmac( salt, w );
        const octets keyid = { 0x62, 0x74, 0x6c, 0x65 };
        const octets len   = { 0x01, 0x00 };
        mac_key            = cmac( t, cat( octets{ 0 }, keyid, oct( n1 ), oct( n2 ), a1, a2, len ) );
        ltk                = cmac( t, cat( octets{ 1 }, keyid, oct( n1 ), oct( n2 ), a1, a2, len ) );
    }

    // Vol 3 Part H 2.2.8: f6( W, N1, N2, R, IOcap, A1, A2 ) = AES-CMAC_W( N1 || N2 || R || IOcap || A1 || A2 )
    inline block f6( const block& w, const block& n1, const block& n2, const block& r, const octets& iocap, const octets& a1, const octets& a2 )
    {
        return cmac( w, cat( oct( n1 ), oct( n2 ), oct( r ), iocap, a1, a2 ) );
    }

    // Vol 3 Part H 2.2.9: g2( U, V, X, Y ) = AES-CMAC_X( U || V || Y ) mod 2^32
    inline std::uint32_t g2( const octets& u, const octets& v, const block& x, const block& y )
    {
        const block m = cmac( x, cat( u, v, oct( y ) ) );
        return ( std::uint32_t( m[ 12 ] ) << 24 ) | ( std::uint32_t( m[ 13 ] ) << 16 ) | ( std::uint32_t( m[ 14 ] ) << 8 ) | m[ 15 ];
    }

    // 56 bit address operand of f5 / f6: 7 zero bits, the address type bit, then the 48 bit address
    inline octets addr56( bool random, const octets& addr_msb_first ) { return cat( octets{ static_cast< std::uint8_t >( random ? 1 : 0 ) }, addr_msb_first ); }

    // Vol 6 Part B 5.1.3.1: SK = e( LTK, SKD ), SKD = SKDs || SKDm (SKDm holds the least significant octets)
    inline block session_key( const block& ltk, const octets& skdm, const octets& skds ) { return aes128( ltk, to_block( cat( skds, skdm ) ) ); }

    // ------------------------------------------------------------------------------------------ P-256
    // 256 bit unsigned integers, four 64 bit limbs, least significant limb first
    struct u256
    {
        std::uint64_t l[ 4 ];
    };

    inline u256 u256_from_be( const std::uint8_t* p )
    {
        u256 r{};
        for ( int i = 0; i != 32; ++i )
            r.l[ 3 - i / 8 ] = ( r.l[ 3 - i / 8 ] << 8 ) | p[ i ];
        return r;
    }
    inline u256 u256_from_hex( const std::string& s )
    {
        const octets o = from_hex( s );
        octets       p( 32, 0 );
        std::copy( o.begin(), o.end(), p.begin() + ( 32 - o.size() ) );
        return u256_from_be( p.data() );
    }
    inline octets u256_to_be( const u256& v )
    {
        octets r( 32 );
        for ( int i = 0; i != 32; ++i )
            r[ i ] = static_cast< std::uint8_t >( v.l[ 3 - i / 8 ] >> ( 8 * ( 7 - i % 8 ) ) );
        return r;
    }
    inline int u256_cmp( const u256& a, const u256& b )
    {
        for ( int i = 3; i >= 0; --i )
            if ( a.l[ i ] != b.l[ i ] )
                return a.l[ i ] < b.l[ i ] ? -1 : 1;
        return 0;
    }
    inline bool u256_is_zero( const u256& a ) { return ( a.l[ 0 ] | a.l[ 1 ] | a.l[ 2 ] | a.l[ 3 ] ) == 0; }
    // returns the carry
    inline unsigned u256_add( u256& r, const u256& a, const u256& b )
    {
        unsigned __int128 c = 0;
        for ( int i = 0; i != 4; ++i )
        {
            c += static_cast< unsigned __int128 >( a.l[ i ] ) + b.l[ i ];
            r.l[ i ] = static_cast< std::uint64_t >( c );
            c >>= 64;
        }
        return static_cast< unsigned >( c );
    }
    // returns the borrow
    inline unsigned u256_sub( u256& r, const u256& a, const u256& b )
    {
        unsigned borrow = 0;
        for ( int i = 0; i != 4; ++i )
        {
            const std::uint64_t ai = a.l[ i ], bi = b.l[ i ];
            const std::uint64_t d  = ai - bi - borrow;
            borrow                 = ( ai < bi || ( ai == bi && borrow ) ) ? 1u : 0u;
            r.l[ i ]               = d;
        }
        return borrow;
    }

    inline const u256& p256_p()
    {
        static const u256 p = u256_from_hex( "ffffffff00000001000000000000000000000000ffffffffffffffffffffffff" );
        return p;
    }
    inline const u256& p256_b()
    {
        static const u256 b = u256_from_hex( "5ac635d8aa3a93e7b3ebbd55769886bc651d06b0cc53b0f63bce3c3e27d2604b" );
        return b;
    }

    // arithmetic modulo p for operands < p
    inline u256 mod_add( const u256& a, const u256& b )
    {
        u256           r;
        const unsigned carry = u256_add( r, a, b );
        if ( carry || u256_cmp( r, p256_p() ) >= 0 )
            u256_sub( r, r, p256_p() );
        return r;
    }
    inline u256 mod_sub( const u256& a, const u256& b )
    {
        u256 r;
        if ( u256_sub( r, a, b ) )
            u256_add( r, r, p256_p() );
        return r;
    }
    // double-and-add: only needs mod_add, deliberately simple
    inline u256 mod_mul( const u256& a, const u256& b )
    {
        u256 r{};
        for ( int bit = 255; bit >= 0; --bit )
        {
            r = mod_add( r, r );
            if ( ( b.l[ bit / 64 ] >> ( bit % 64 ) ) & 1 )
                r = mod_add( r, a );
        }
        return r;
    }
    inline u256 mod_pow( const u256& a, const u256& e )
    {
        u256 r{};
        r.l[ 0 ] = 1;
        for ( int bit = 255; bit >= 0; --bit )
        {
            r = mod_mul( r, r );
            if ( ( e.l[ bit / 64 ] >> ( bit % 64 ) ) & 1 )
                r = mod_mul( r, a );
        }
        return r;
    }
    inline u256 mod_reduce( const u256& a )
    {
        u256 r = a;
        // 2^256 < 2p, one subtraction suffices
        if ( u256_cmp( r, p256_p() ) >= 0 )
            u256_sub( r, r, p256_p() );
        return r;
    }

    // x^3 - 3x + b mod p for x < p
    inline u256 p256_rhs( const u256& x )
    {
        const u256 x2 = mod_mul( x, x );
        const u256 x3 = mod_mul( x2, x );
        const u256 tx = mod_add( mod_add( x, x ), x );
        return mod_add( mod_sub( x3, tx ), p256_b() );
    }

    // the verdict of the curve equation: both coordinates in [0, p) and y^2 = x^3 - 3x + b (mod p)
    // (the group has prime order, so every such point is a valid public key; the point at infinity has no
    // affine representation)
    inline bool p256_on_curve( const u256& x, const u256& y )
    {
        if ( u256_cmp( x, p256_p() ) >= 0 || u256_cmp( y, p256_p() ) >= 0 )
            return false;
        return u256_cmp( mod_mul( y, y ), p256_rhs( x ) ) == 0;
    }

    // square root modulo p (p = 3 mod 4): candidate a^((p+1)/4); returns false if a is not a square
    inline bool mod_sqrt( const u256& a, u256& root )
    {
        // ( p + 1 ) / 4
        static const u256 e = u256_from_hex( "3fffffffc0000000400000000000000000000000400000000000000000000000" );
        root                = mod_pow( a, e );
        return u256_cmp( mod_mul( root, root ), a ) == 0;
    }

    inline u256 mod_neg( const u256& a )
    {
        u256 zero{};
        return mod_sub( zero, a );
    }

    // ------------------------------------------------------------------------------------------ self check
    inline std::string selfcheck()
    {
        auto B = []( const char* h ) { return to_block( from_hex( h ) ); };
        auto expect = []( const std::string& what, const std::string& got, const std::string& want ) -> std::string {
            std::string w;
            for ( char c : want )
                if ( c != ' ' )
                    w += static_cast< char >( c >= 'A' && c <= 'F' ? c - 'A' + 'a' : c );
            return got == w ? std::string() : what + ": got " + got + " expected " + w + "; ";
        };
        std::string err;

        // FIPS-197 Appendix B and C.1
        err += expect( "FIPS-197 B", to_hex( aes128( B( "2b7e151628aed2a6abf7158809cf4f3c" ), B( "3243f6a8885a308d313198a2e0370734" ) ) ),
            "3925841d02dc09fbdc118597196a0b32" );
        err += expect( "FIPS-197 C.1", to_hex( aes128( B( "000102030405060708090a0b0c0d0e0f" ), B( "00112233445566778899aabbccddeeff" ) ) ),
            "69c4e0d86a7b0430d8cdb78070b4c55a" );
        err += expect( "S-box(0x53)", to_hex( octets{ detail::sub_byte( 0x53 ) } ), "ed" );

        // RFC 4493 section 4
        const block k = B( "2b7e151628aed2a6abf7158809cf4f3c" );
        block       k1, k2;
        cmac_subkeys( k, k1, k2 );
        err += expect( "RFC4493 K1", to_hex( k1 ), "fbeed618357133667c85e08f7236a8de" );
        err += expect( "RFC4493 K2", to_hex( k2 ), "f7ddac306ae266ccf90bc11ee46d513b" );
        const octets m64 = from_hex( "6bc1bee22e409f96e93d7e117393172a ae2d8a571e03ac9c9eb76fac45af8e51"
                                     "30c81c46a35ce411e5fbc1191a0a52ef f69f2445df4f9b17ad2b417be66c3710" );
        err += expect( "RFC4493 len 0", to_hex( cmac( k, octets() ) ), "bb1d6929e95937287fa37d129b756746" );
        err += expect( "RFC4493 len 16", to_hex( cmac( k, octets( m64.begin(), m64.begin() + 16 ) ) ), "070a16b46b4d4144f79bdd9dd04a287c" );
        err += expect( "RFC4493 len 40", to_hex( cmac( k, octets( m64.begin(), m64.begin() + 40 ) ) ), "dfa66747de9ae63030ca32611497c827" );
        err += expect( "RFC4493 len 64", to_hex( cmac( k, m64 ) ), "51f0bebf7e3b9d92fc49741779363cfe" );

        // Core specification Vol 3 Part H 2.2.3 (c1) and 2.2.4 (s1)
        err += expect( "c1 sample",
            to_hex( c1( B( "00000000000000000000000000000000" ), B( "5783D52156AD6F0E6388274EC6702EE0" ), from_hex( "07071000000101" ),
                from_hex( "05000800000302" ), 1, 0, from_hex( "A1A2A3A4A5A6" ), from_hex( "B1B2B3B4B5B6" ) ) ),
            "1e1e3fef878988ead2a74dc5bef13b86" );
        err += expect( "c1 p1", to_hex( c1_p1( from_hex( "07071000000101" ), from_hex( "05000800000302" ), 1, 0 ) ), "05000800000302070710000001010001" );
        err += expect( "c1 p2", to_hex( c1_p2( from_hex( "A1A2A3A4A5A6" ), from_hex( "B1B2B3B4B5B6" ) ) ), "00000000A1A2A3A4A5A6B1B2B3B4B5B6" );
        err += expect( "s1 sample",
            to_hex( s1( B( "00000000000000000000000000000000" ), B( "000F0E0D0C0B0A091122334455667788" ), B( "010203040506070899AABBCCDDEEFF00" ) ) ),
            "9a1fe1f0e8b0f49b5b4216ae796da062" );

        // Vol 3 Part H Appendix D
        const octets u  = from_hex( "20b003d2 f297be2c 5e2c83a7 e9f9a5b9 eff49111 acf4fddb cc030148 0e359de6" );
        const octets v  = from_hex( "55188b3d 32f6bb9a 900afcfb eed4e72a 59cb9ac2 f19d7cfb 6b4fdd49 f47fc5fd" );
        const block  x  = B( "d5cb8454 d177733e ffffb2ec 712baeab" );
        const block  y  = B( "a6e8e7cc 25a75f6e 216583f7 ff3dc4cf" );
        const octets a1 = from_hex( "00561237 37bfce" );
        const octets a2 = from_hex( "00a71370 2dcfc1" );
        err += expect( "f4 sample (D.2)", to_hex( f4( u, v, x, 0 ) ), "f2c916f1 07a9bd1c f1eda1be a974872d" );
        block mac_key, ltk;
        f5( from_hex( "ec0234a3 57c8ad05 341010a6 0a397d9b 99796b13 b4f866f1 868d34f3 73bfa698" ), x, y, a1, a2, mac_key, ltk );
        err += expect( "f5 T (D.3)", to_hex( cmac( B( "6C888391AAF5A53860370BDB5A6083BE" ),
                                         from_hex( "ec0234a3 57c8ad05 341010a6 0a397d9b 99796b13 b4f866f1 868d34f3 73bfa698" ) ) ),
            "3c128f20 de883288 97624bdb 8dac6989" );
        err += expect( "f5 LTK (D.3)", to_hex( ltk ), "69867911 69d7cd23 980522b5 94750a38" );
        err += expect( "f5 MacKey (D.3)", to_hex( mac_key ), "2965f176 a1084a02 fd3f6a20 ce636e20" );
        err += expect( "f6 sample (D.4)",
            to_hex( f6( B( "2965f176 a1084a02 fd3f6a20 ce636e20" ), x, y, B( "12a3343b b453bb54 08da42d2 0c2d0fc8" ), from_hex( "010102" ), a1, a2 ) ),
            "e3c47398 9cd0e8c5 d26c0b09 da958f61" );
        {
            const std::uint32_t g = g2( u, v, x, y );
            const octets        go = { std::uint8_t( g >> 24 ), std::uint8_t( g >> 16 ), std::uint8_t( g >> 8 ), std::uint8_t( g ) };
            err += expect( "g2 sample (D.5)", to_hex( go ), "2f9ed5ba" );
        }

        // Vol 6 Part C 1: session key
        err += expect( "SK sample", to_hex( session_key( B( "4C68384139F574D836BCF34E9DFB01BF" ), from_hex( "ACBDCEDFE0F10213" ), from_hex( "0213243546576879" ) ) ),
            "99AD1B5226A37E3E058E3B8E27C2C666" );

        // P-256: base point, the specification's sample public keys (Vol 3 Part H D.1), arithmetic sanity
        const u256 gx = u256_from_hex( "6b17d1f2e12c4247f8bce6e563a440f277037d812deb33a0f4a13945d898c296" );
        const u256 gy = u256_from_hex( "4fe342e2fe1a7f9b8ee7eb4a7c0f9e162bce33576b315ececbb6406837bf51f5" );
        if ( !p256_on_curve( gx, gy ) )
            err += "P-256 base point not on the curve; ";
        if ( !p256_on_curve( u256_from_be( u.data() ), u256_from_hex( "dc809c49652aeb6d63329abf5a52155c766345c28fed3024741c8ed01589d28b" ) ) )
            err += "sample public key A not on the curve; ";
        {
            u256 root;
            if ( !mod_sqrt( p256_rhs( gx ), root ) || ( u256_cmp( root, gy ) != 0 && u256_cmp( mod_neg( root ), gy ) != 0 ) )
                err += "square root of rhs( Gx ) is not +-Gy; ";
            u256 one{};
            one.l[ 0 ] = 1;
            u256 pm1;
            u256_sub( pm1, p256_p(), one );
            if ( u256_cmp( mod_mul( pm1, pm1 ), one ) != 0 )
                err += "(p-1)^2 != 1; ";
            if ( p256_on_curve( gx, mod_add( gy, one ) ) )
                err += "Gy + 1 accepted; ";
            // -1 is not a square
            if ( mod_sqrt( pm1, root ) )
                err += "-1 is a square; ";
        }
        return err;
    }
}
