#pragma once
// Emulated nRF register file for host builds of bluetoe's nRF52 security toolbox (DESIGN.md 2.4, C37/C38).
//
// bluetoe/bindings/nordic/nrf52/security_tool_box.cpp is compiled UNMODIFIED against this header (it is found as
// <nrf.h> through -I lib/nrf_emul). Only the two peripherals the toolbox touches have behaviour:
//
//   NRF_RNG->TASKS_START    = 1   runs nrf_emul::on_rng_start(): VALUE = next byte of the harness-controlled stream,
//                                 EVENTS_VALRDY = 1
//   NRF_ECB->TASKS_STARTECB = 1   runs nrf_emul::on_ecb_start(): ECBDATAPTR points at { key[16], cleartext[16],
//                                 ciphertext[16] } (big endian, as the nRF52 ECB peripheral); the ciphertext is
//                                 written and EVENTS_ENDECB = 1
//
// The hooks and the register instances are defined by exactly one translation unit of the harness (include
// "nrf_emul/emul_impl.hpp" there). All other peripherals are plain structs with the members that
// <bluetoe/nrf.hpp> names; nothing reads them.
#include <cstdint>

namespace nrf_emul {
    void on_rng_start();
    void on_ecb_start();

    template < void ( *Hook )() >
    struct task_reg
    {
        volatile std::uint32_t v;
        task_reg&              operator=( std::uint32_t x )
        {
            v = x;
            if ( x )
                Hook();
            return *this;
        }
        operator std::uint32_t() const { return v; }
    };
}

typedef volatile std::uint32_t nrf_reg;

struct NRF_RADIO_Type { nrf_reg dummy; };
struct NRF_TIMER_Type { nrf_reg dummy; };
struct NRF_CLOCK_Type { nrf_reg TASKS_HFCLKSTART, TASKS_HFCLKSTOP, TASKS_LFCLKSTART, EVENTS_HFCLKSTARTED, EVENTS_LFCLKSTARTED, LFCLKSRC; };
struct NRF_TEMP_Type { nrf_reg dummy; };
struct NRF_RTC_Type { nrf_reg TASKS_START, TASKS_STOP, EVTEN; };
struct NRF_CCM_Type { nrf_reg dummy; };
struct NRF_AAR_Type { nrf_reg dummy; };
struct NRF_PPI_Type { nrf_reg dummy; };
struct NRF_RNG_Type { nrf_emul::task_reg< nrf_emul::on_rng_start > TASKS_START; nrf_reg EVENTS_VALRDY, VALUE; };
struct NRF_ECB_Type { nrf_emul::task_reg< nrf_emul::on_ecb_start > TASKS_STARTECB; nrf_reg EVENTS_ENDECB, EVENTS_ERRORECB, ECBDATAPTR; };
struct NRF_GPIOTE_Type { nrf_reg dummy; };
struct NVIC_Type { nrf_reg dummy; };

namespace nrf_emul {
    extern NRF_RADIO_Type  radio;
    extern NRF_TIMER_Type  timer0, timer1;
    extern NRF_CLOCK_Type  clock_;
    extern NRF_TEMP_Type   temp;
    extern NRF_RTC_Type    rtc0;
    extern NRF_CCM_Type    ccm;
    extern NRF_AAR_Type    aar;
    extern NRF_PPI_Type    ppi;
    extern NRF_RNG_Type    rng;
    extern NRF_ECB_Type    ecb;
    extern NRF_GPIOTE_Type gpiote;
    extern NVIC_Type       nvic;
}

#define NRF_RADIO  ( &nrf_emul::radio )
#define NRF_TIMER0 ( &nrf_emul::timer0 )
#define NRF_TIMER1 ( &nrf_emul::timer1 )
#define NRF_CLOCK  ( &nrf_emul::clock_ )
#define NRF_TEMP   ( &nrf_emul::temp )
#define NRF_RTC0   ( &nrf_emul::rtc0 )
#define NRF_CCM    ( &nrf_emul::ccm )
#define NRF_AAR    ( &nrf_emul::aar )
#define NRF_PPI    ( &nrf_emul::ppi )
#define NRF_RNG    ( &nrf_emul::rng )
#define NRF_ECB    ( &nrf_emul::ecb )
#define NRF_GPIOTE ( &nrf_emul::gpiote )
#define NVIC       ( &nrf_emul::nvic )

#define __NVIC_PRIO_BITS 3
#define RTC_EVTEN_COMPARE0_Enabled 1
#define RTC_EVTEN_COMPARE0_Pos 16
#define RTC_EVTEN_COMPARE1_Enabled 1
#define RTC_EVTEN_COMPARE1_Pos 17
#define RTC_EVTEN_OVRFLW_Enabled 1
#define RTC_EVTEN_OVRFLW_Pos 1
#define CLOCK_LFCLKSRCCOPY_SRC_Pos 0
#define CLOCK_LFCLKSRCCOPY_SRC_RC 0
#define CLOCK_LFCLKSRCCOPY_SRC_Xtal 1
#define CLOCK_LFCLKSRCCOPY_SRC_Synth 2
