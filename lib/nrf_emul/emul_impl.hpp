#pragma once
// Behaviour of the emulated nRF peripherals (see nrf.h). Include in exactly ONE translation unit of a harness.
//
// RNG: the byte stream is owned by the harness and is part of the generated case:
//        `pattern` repeated `repeat` times, followed by the output of a seeded splitmix64 generator.
//      A pattern-only stream would let a rejection sampler spin forever, which is why every stream ends in the
//      seeded generator; in addition every toolbox call has a draw budget (rng_budget_exceeded is thrown
//      through the toolbox when it is used up -- the toolbox is exception neutral).
// ECB: AES-128 by tests/test_tools/aes.c (tiny-AES), the third implementation next to the toolbox's own
//      chaining and lib/refcrypto.hpp.
#include <nrf.h>

#include <cstdint>
#include <cstring>
#include <vector>

extern "C" {
#include "aes.h"
}

namespace nrf_emul {
    NRF_RADIO_Type  radio;
    NRF_TIMER_Type  timer0, timer1;
    NRF_CLOCK_Type  clock_;
    NRF_TEMP_Type   temp;
    NRF_RTC_Type    rtc0;
    NRF_CCM_Type    ccm;
    NRF_AAR_Type    aar;
    NRF_PPI_Type    ppi;
    NRF_RNG_Type    rng;
    NRF_ECB_Type    ecb;
    NRF_GPIOTE_Type gpiote;
    NVIC_Type       nvic;

    struct rng_budget_exceeded
    {
    };

    struct rng_model
    {
        std::vector< std::uint8_t > pattern;
        std::uint64_t               repeat  = 0;  // how often the pattern is delivered before the generator takes over
        std::uint64_t               state   = 1;  // splitmix64 state
        std::uint64_t               pos     = 0;  // octets handed to the toolbox so far
        std::uint64_t               raw_pos = 0;  // octets taken from the stream so far (pos + look ahead)
        std::uint64_t               word    = 0;  // current generator output
        unsigned                    avail   = 0;  // unused octets in word
        std::uint8_t                look[ 3 ] = { 0, 0, 0 };
        unsigned                    look_n  = 0;
        std::uint64_t               budget  = ~std::uint64_t( 0 );  // remaining draws before rng_budget_exceeded

        void reset( const std::vector< std::uint8_t >& pat, std::uint64_t rep, std::uint64_t seed )
        {
            pattern = pat;
            repeat  = pat.empty() ? 0 : rep;
            state   = seed;
            pos = raw_pos = 0;
            avail = look_n = 0;
            budget = ~std::uint64_t( 0 );
        }

        std::uint64_t pattern_bytes() const { return pattern.size() * repeat; }

        std::uint8_t raw()
        {
            std::uint8_t r;
            if ( raw_pos < pattern_bytes() )
            {
                r = pattern[ raw_pos % pattern.size() ];
            }
            else
            {
                if ( avail == 0 )
                {
                    // splitmix64
                    std::uint64_t z = ( state += 0x9e3779b97f4a7c15ull );
                    z               = ( z ^ ( z >> 30 ) ) * 0xbf58476d1ce4e5b9ull;
                    z               = ( z ^ ( z >> 27 ) ) * 0x94d049bb133111ebull;
                    word            = z ^ ( z >> 31 );
                    avail           = 8;
                }
                r = static_cast< std::uint8_t >( word );
                word >>= 8;
                --avail;
            }
            ++raw_pos;
            return r;
        }

        // one octet for the RNG peripheral
        std::uint8_t next()
        {
            if ( budget == 0 )
                throw rng_budget_exceeded{};
            --budget;
            ++pos;
            if ( look_n )
            {
                const std::uint8_t r = look[ 0 ];
                look[ 0 ]            = look[ 1 ];
                look[ 1 ]            = look[ 2 ];
                --look_n;
                return r;
            }
            return raw();
        }

        // the next three octets as a little endian number, without consuming them
        std::uint32_t peek3()
        {
            while ( look_n < 3 )
                look[ look_n++ ] = raw();
            return std::uint32_t( look[ 0 ] ) | ( std::uint32_t( look[ 1 ] ) << 8 ) | ( std::uint32_t( look[ 2 ] ) << 16 );
        }
    };

    inline rng_model& the_rng()
    {
        static rng_model m;
        return m;
    }

    inline std::uint64_t& ecb_runs()
    {
        static std::uint64_t n = 0;
        return n;
    }

    void on_rng_start()
    {
        rng.VALUE         = the_rng().next();
        rng.EVENTS_VALRDY = 1;
    }

    void on_ecb_start()
    {
        // ECBDATAPTR is a 32 bit register: the toolbox's scratch buffer is a static object of a non-PIE executable
        std::uint8_t* p = reinterpret_cast< std::uint8_t* >( static_cast< std::uintptr_t >( ecb.ECBDATAPTR ) );
        AES_ctx       ctx;
        AES_init_ctx( &ctx, p );
        std::uint8_t blk[ 16 ];
        std::memcpy( blk, p + 16, 16 );
        AES_ECB_encrypt( &ctx, blk );
        std::memcpy( p + 32, blk, 16 );
        ecb.EVENTS_ENDECB = 1;
        ++ecb_runs();
    }
}
